package main

import (
	"fmt"
	"go/token"
	"regexp"
	"strings"
	"time"

	"golang.org/x/tools/go/ssa"
)

func init() {
	registerProp(&PropSpec{ID: "C07", Title: "Parsing is total: an error or a well-formed tree, and nothing left running", MinObls: 60,
		Classes:     regexp.MustCompile(`^(pre|post|inv|dec|assert|finding|frame|drain|safe:(nil|nil-recv|nil-func|index|slice|assert-type))`),
		TrustedBase: []string{"nil-dereference, index and slice obligations for every instruction of the parser functions under contract", "function-typed struct fields under contract (functype ASTNode.nullDenotation / leftDenotation): every function of the package with that signature proves it, every call through the field relies on it"},
		Assumptions: []string{"the grammar table holds a node definition for every token id the lexer emits (map lookups are checked with ok)", "the look-ahead buffer hands out LexToken values (datautil.RingBuffer is a dependency)"},
		NotDecided:  []string{"termination of the parser loops (each iteration consumes a token: not mechanised)", "the recursive whole-tree statement (every node of a returned tree is well formed) is the induction over the per-constructor postconditions proved here"}})
}

const c07ReplaySrc = `package parser

import (
	"fmt"
	"runtime"
	"testing"
	"time"
)

func nilChild(n *ASTNode) bool {
	if n == nil {
		return true
	}
	for _, c := range n.Children {
		if nilChild(c) {
			return true
		}
	}
	return false
}

func noKind(n *ASTNode) bool {
	if n.Name == "" {
		return true
	}
	for _, c := range n.Children {
		if c != nil && noKind(c) {
			return true
		}
	}
	return false
}

func TestVerifReplay(t *testing.T) {
	inputs := []string{"1 )", "1 ; '", "a[ '", "if a { b ; ' }", "if true { ) ; 1 }", "func f() { ( ] ; 2 }", "a := 1 a", "1\n(2 ]", "if a == { {} {}", "for a == { {} {}"}
	for _, in := range inputs {
		in := in
		done := make(chan string, 1)
		go func() {
			defer func() {
				if r := recover(); r != nil {
					done <- fmt.Sprintf("PANIC %v", r)
				}
			}()
			n, err := Parse("replay", in)
			switch {
			case n != nil && err != nil:
				done <- "TREE-AND-ERROR"
			case n == nil && err == nil:
				done <- "NEITHER"
			case n != nil && nilChild(n):
				done <- "NIL-NODE-IN-TREE"
			case n != nil && noKind(n):
				done <- "NODE-WITHOUT-KIND-IN-TREE"
			default:
				done <- "ok"
			}
		}()
		select {
		case r := <-done:
			fmt.Printf("REPLAY-CASE %q %s\n", in, r)
		case <-time.After(5 * time.Second):
			fmt.Printf("REPLAY-CASE %q HANG\n", in)
		}
	}
	// goroutines left behind by failing parses
	time.Sleep(50 * time.Millisecond)
	before := runtime.NumGoroutine()
	for i := 0; i < 50; i++ {
		Parse("replay", "(1 ] 2 3 4 5 6 7 8 9")
	}
	time.Sleep(200 * time.Millisecond)
	fmt.Printf("REPLAY-GOROUTINES-LEFT %d\n", runtime.NumGoroutine()-before)
	fmt.Println("REPLAY-DONE")
}
`

var c07ReplayCache string

func c07Replay(c *Checker, o *Obl) map[string]interface{} {
	if c07ReplayCache == "" {
		run := runOverlayTestFlags(c.W.Repo, "parser", c07ReplaySrc, c.Dir, 90*time.Second, "")
		c07ReplayCache = run.Out + " "
	}
	rp := map[string]interface{}{"confirmed": false, "replay": "parser: Parse on inputs built from the failing sites (errors inside statement lists and identifier chains, extra tokens, early errors with tokens left) with panic guard, watchdog, tree walk and goroutine count", "replay_output": truncate(c07ReplayCache, 2500)}
	var bad []string
	for _, l := range strings.Split(c07ReplayCache, "\n") {
		if strings.HasPrefix(l, "REPLAY-CASE ") && !strings.HasSuffix(l, " ok") {
			bad = append(bad, strings.TrimPrefix(l, "REPLAY-CASE "))
		}
		if strings.HasPrefix(l, "REPLAY-GOROUTINES-LEFT ") && strings.TrimPrefix(l, "REPLAY-GOROUTINES-LEFT ") != "0" {
			if strings.Contains(o.ID, "drain") {
				bad = append(bad, "50 failing parses left "+strings.TrimPrefix(l, "REPLAY-GOROUTINES-LEFT ")+" goroutines behind")
			}
		}
	}
	want := ""
	switch {
	case strings.Contains(o.ID, "a-tree-or-an-error"):
		want = "TREE-AND-ERROR"
	case strings.Contains(o.ID, "drain"):
		want = "goroutines"
	}
	for _, b := range bad {
		if want == "" || strings.Contains(b, want) {
			rp["confirmed"] = true
		}
	}
	rp["outcome"] = strings.Join(bad, "; ")
	return rp
}

// c07Extra: nothing left running. The lexer goroutine only ends when its channel has been read to the
// end; ParseWithRuntime must therefore register, before its first return, a deferred function that
// receives from the token channel until it is closed (structural obligation on the SSA).
func c07Extra(c *Checker) {
	f := c.W.Funcs["parser.ParseWithRuntime"]
	if f == nil {
		c.engineErr = append(c.engineErr, "parser.ParseWithRuntime not found")
		return
	}
	e := c.structEnc(f)
	ok, why := false, "no deferred function literal that drains the token channel is registered in the entry block"
	for _, ins := range f.Blocks[0].Instrs {
		d, isDefer := ins.(*ssa.Defer)
		if !isDefer {
			if _, isRet := ins.(*ssa.Return); isRet {
				break
			}
			continue
		}
		var fn *ssa.Function
		if mc, isMC := d.Call.Value.(*ssa.MakeClosure); isMC {
			fn, _ = mc.Fn.(*ssa.Function)
		}
		if fn == nil {
			continue
		}
		// the literal must contain a loop receiving from a channel whose only exit is "channel closed"
		for _, b := range fn.Blocks {
			for _, i2 := range b.Instrs {
				if u, isRecv := i2.(*ssa.UnOp); isRecv && u.Op == token.ARROW && u.CommaOk {
					ok, why = true, "deferred literal "+fn.Name()+" receives from the token channel until it is closed"
				}
				if _, isNext := i2.(*ssa.Next); isNext {
					ok, why = true, "deferred literal "+fn.Name()+" ranges over the token channel"
				}
			}
		}
	}
	c.addStruct(e, "drain", "token-channel-read-to-the-end", f.Pos(), ok, why)
	// and the lexer closes its channel on every way out of run
	if lr := c.W.Funcs["parser.(*lexer).run"]; lr != nil {
		closes := 0
		rets := 0
		for _, b := range lr.Blocks {
			for k, i2 := range b.Instrs {
				if _, isRet := i2.(*ssa.Return); isRet {
					rets++
					for _, j := range b.Instrs[:k] {
						if call, isCall := j.(*ssa.Call); isCall {
							if bi, isB := call.Call.Value.(*ssa.Builtin); isB && bi.Name() == "close" {
								closes++
							}
						}
					}
				}
			}
		}
		c.addStruct(c.structEnc(lr), "drain", "lexer-closes-its-channel", lr.Pos(), rets > 0 && closes == rets, fmt.Sprintf("%d of %d returns of lexer.run are preceded by close(tokens) in their block", closes, rets))
	}
}

func init() { propSpecs["C07"].Replay = c07Replay; propSpecs["C07"].Extra = c07Extra }
