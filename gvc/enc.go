package main

// SSA -> SMT-LIB encoder (DESIGN §2.2): block predicates, versioned heap arrays,
// loops cut at headers, calls through contracts, obligations.

import (
	"fmt"
	"go/constant"
	"go/token"
	"go/types"
	"math"
	"sort"
	"strings"

	"golang.org/x/tools/go/ssa"
)

type Obl struct {
	ID     string
	Fn     string
	Class  string // safe:nil, post, pre, inv, dec, frame, own, lock, cond, ...
	Label  string
	Ord    int
	Path   string
	Goal   string
	Pos    token.Pos
	Props  map[string]bool
	Note   string
	Struct bool   // decided structurally (Goal is literally true/false)
	Callee string // for pre obligations
	Result string // unsat|sat|unknown|timeout|error
	Solver string
	Ms     int64
	Model  string
	Raw    string
	At     int // number of assumptions visible to this obligation (flow order)
}

type loc struct {
	kind, arr, ref, idx, sort string
	t                         types.Type // type of the stored value
}

type hstate map[string]int

type storeRec struct {
	ref  string
	prev int
}

type passInfo struct {
	arrays map[string]string            // array -> sort
	writes map[ssa.Instruction][]string // arrays written by instruction ("*" = all)
}

type enc struct {
	w               *World
	f               *ssa.Function
	key             string
	fc              *FuncContract
	bv              bool
	strTheory       bool
	decls           []string
	declared        map[string]bool
	asserts         []string
	obls            []*Obl
	ordCount        map[string]int
	names           map[ssa.Value]string
	heap            hstate
	heapSort        map[string]string
	ver             map[string]int
	reach           map[*ssa.BasicBlock]string
	heapAt          map[*ssa.BasicBlock]hstate // at block exit
	heapIn          map[*ssa.BasicBlock]hstate // at block entry (after merge/havoc)
	entry           hstate
	locs            map[ssa.Value]loc
	fresh           int
	notes           map[string]int
	info            *passInfo // nil in pass 1
	rec             *passInfo // recorded in this pass
	back            map[[2]*ssa.BasicBlock]bool
	headers         map[*ssa.BasicBlock]int // header -> loop ordinal (1-based)
	loopBody        map[*ssa.BasicBlock]map[*ssa.BasicBlock]bool
	order           []*ssa.BasicBlock
	localAlloc      map[string]bool // refs allocated in this function (term names)
	defers          []*ssa.Defer
	curBlock        *ssa.BasicBlock
	curInstr        ssa.Instruction
	safeOnly        bool            // sweep mode: no functional contract of its own required
	assumptions     map[string]bool // trusted/unmodelled things used, for evidence
	callOrd         map[string]int
	opts            *EncOpts
	ghostInit       bool
	ok              bool
	entryAt         int
	lastModel       map[string]string
	usedSpecs       map[string]bool
	specStates      map[string]map[string]hstate // heap-dependent spec functions: name -> state suffix -> state
	lexicalCallee   bool
	fnConsts        []string
	dropAssert      map[int]bool
	allocSites      []string // one constant per allocation site: different sites never yield the same object
	siteOrd         map[ssa.Instruction]int
	siteExtra       map[string]cval          // extra names for the site assertions of the current instruction
	usedFCs         map[*FuncContract]string // contracts applied at call sites -> callee key
	usedSites       map[string]bool
	usedGlobalInvs  []*GlobalInv
	usedTypeInvs    map[string]bool         // pkg.Type whose invariants this VC assumed at a load
	factGuard       string                  // reach predicate under which the type facts of the value being declared hold
	assertsEnd      map[*ssa.BasicBlock]int // number of assumptions made when the block had been encoded
	priv            []privAlloc
	taint           map[ssa.Value][2]string
	lockUses        []lockUse
	invTouched      []invObj
	invDone         map[string]bool
	invBusy         bool
	curCallRefs     []string
	clockOf         map[string]int
	storeOf         map[string]storeRec
	inStore         bool
	callBinds       map[string]bool // cells bound to the closure being called
	lockLoops       []lockLoop
	retVals         []string
	siteAt          ssa.Instruction
	callResults     map[string]cval
	callResultTypes map[string]types.Type
	retTypes        []types.Type
	lockStates      []hstate        // heap right after each lock acquisition (for atlock())
	countKeys       map[string]bool // callee keys counted for ncalls()
}

type EncOpts struct {
	NonnilParams bool
	Disciplines  map[string]bool // lock, own, global
}

func (e *enc) isort() string {
	if e.bv {
		return "(_ BitVec 64)"
	}
	return "Int"
}

func (e *enc) strsort() string { return "Str" }

func (e *enc) note(s string) { e.notes[s]++ }

func (e *enc) sortOf(t types.Type) string { return sortOfType(t) }

func (e *enc) decl(name, sort string) {
	if e.declared[name] {
		return
	}
	e.declared[name] = true
	e.decls = append(e.decls, fmt.Sprintf("(declare-const %s %s)", name, sort))
}

func (e *enc) declFun(name, sig string) {
	if e.declared[name] {
		return
	}
	e.declared[name] = true
	e.decls = append(e.decls, fmt.Sprintf("(declare-fun %s %s)", name, sig))
}

func (e *enc) newName(p string) string { e.fresh++; return fmt.Sprintf("%s!%d", p, e.fresh) }

func (e *enc) assume(s string) { e.asserts = append(e.asserts, s) }

// assumeAt adds a fact guarded by the reachability of the current block.
func (e *enc) assumeAt(R, s string) {
	if R == "" || R == "true" {
		e.asserts = append(e.asserts, s)
	} else {
		e.asserts = append(e.asserts, fmt.Sprintf("(=> %s %s)", R, s))
	}
}

func (e *enc) zero(s string) string {
	switch s {
	case "Bool":
		return "false"
	case "ISort":
		return e.ilit(0)
	case "Ref":
		return "0"
	case "Iface":
		return "INil"
	case "Slice":
		return fmt.Sprintf("(mkSlice 0 %s %s %s)", e.ilit(0), e.ilit(0), e.ilit(0))
	case "Str":
		if e.strTheory {
			return "\"\""
		}
		return "emptyStr"
	case "F64":
		return "#x0000000000000000"
	}
	return ""
}

func (e *enc) ilit(v int64) string {
	if e.bv {
		return fmt.Sprintf("#x%016x", uint64(v))
	}
	if v < 0 {
		return fmt.Sprintf("(- %d)", -v)
	}
	return fmt.Sprint(v)
}

func (e *enc) ulit(v uint64) string {
	if e.bv {
		return fmt.Sprintf("#x%016x", v)
	}
	return fmt.Sprint(v)
}

func isUnsigned(t types.Type) bool {
	b, ok := t.Underlying().(*types.Basic)
	return ok && b.Info()&types.IsUnsigned != 0
}

func (e *enc) icmp(op token.Token, x, y string, unsigned bool) string {
	if e.bv {
		var o string
		switch op {
		case token.LSS:
			o = "bvslt"
		case token.LEQ:
			o = "bvsle"
		case token.GTR:
			o = "bvsgt"
		case token.GEQ:
			o = "bvsge"
		}
		if unsigned {
			o = strings.Replace(o, "bvs", "bvu", 1)
		}
		return fmt.Sprintf("(%s %s %s)", o, x, y)
	}
	o := map[token.Token]string{token.LSS: "<", token.LEQ: "<=", token.GTR: ">", token.GEQ: ">="}[op]
	return fmt.Sprintf("(%s %s %s)", o, x, y)
}

func (e *enc) ige0(x string) string { return e.icmp(token.GEQ, x, e.ilit(0), false) }

func (e *enc) iadd(x, y string) string {
	if e.bv {
		return fmt.Sprintf("(bvadd %s %s)", x, y)
	}
	return fmt.Sprintf("(+ %s %s)", x, y)
}
func (e *enc) isub(x, y string) string {
	if e.bv {
		return fmt.Sprintf("(bvsub %s %s)", x, y)
	}
	return fmt.Sprintf("(- %s %s)", x, y)
}

// iop returns the term for an integer binary operator, or "" if it has to be havocked.
func (e *enc) iop(op token.Token, x, y string, unsigned bool) string {
	if e.bv {
		switch op {
		case token.ADD:
			return fmt.Sprintf("(bvadd %s %s)", x, y)
		case token.SUB:
			return fmt.Sprintf("(bvsub %s %s)", x, y)
		case token.MUL:
			return fmt.Sprintf("(bvmul %s %s)", x, y)
		case token.QUO:
			if unsigned {
				return fmt.Sprintf("(bvudiv %s %s)", x, y)
			}
			return fmt.Sprintf("(bvsdiv %s %s)", x, y)
		case token.REM:
			if unsigned {
				return fmt.Sprintf("(bvurem %s %s)", x, y)
			}
			return fmt.Sprintf("(bvsrem %s %s)", x, y)
		case token.AND:
			return fmt.Sprintf("(bvand %s %s)", x, y)
		case token.OR:
			return fmt.Sprintf("(bvor %s %s)", x, y)
		case token.XOR:
			return fmt.Sprintf("(bvxor %s %s)", x, y)
		case token.AND_NOT:
			return fmt.Sprintf("(bvand %s (bvnot %s))", x, y)
		case token.SHL:
			return fmt.Sprintf("(bvshl %s %s)", x, y)
		case token.SHR:
			if unsigned {
				return fmt.Sprintf("(bvlshr %s %s)", x, y)
			}
			return fmt.Sprintf("(bvashr %s %s)", x, y)
		}
		return ""
	}
	switch op {
	case token.ADD:
		return fmt.Sprintf("(+ %s %s)", x, y)
	case token.SUB:
		return fmt.Sprintf("(- %s %s)", x, y)
	case token.MUL:
		return fmt.Sprintf("(* %s %s)", x, y)
	case token.QUO:
		return fmt.Sprintf("(tdiv %s %s)", x, y)
	case token.REM:
		return fmt.Sprintf("(trem %s %s)", x, y)
	case token.AND:
		return fmt.Sprintf("(bitand %s %s)", x, y)
	case token.OR:
		return fmt.Sprintf("(bitor %s %s)", x, y)
	case token.XOR:
		return fmt.Sprintf("(bitxor %s %s)", x, y)
	case token.AND_NOT:
		return fmt.Sprintf("(bitandnot %s %s)", x, y)
	case token.SHL:
		return fmt.Sprintf("(bitshl %s %s)", x, y)
	case token.SHR:
		return fmt.Sprintf("(bitshr %s %s)", x, y)
	}
	return ""
}

func (e *enc) strLit(s string) string {
	if e.strTheory {
		var sb strings.Builder
		sb.WriteByte('"')
		for _, c := range []byte(s) {
			switch {
			case c == '"':
				sb.WriteString("\"\"")
			case c >= 0x20 && c < 0x7f && c != '\\':
				sb.WriteByte(c)
			default:
				sb.WriteString(fmt.Sprintf("\\u{%x}", c))
			}
		}
		sb.WriteByte('"')
		return sb.String()
	}
	n := "strlit_" + sname(fmt.Sprintf("%x", s))
	if len(n) > 60 {
		n = n[:60] + fmt.Sprintf("_%d", len(s))
	}
	if !e.declared[n] {
		e.decl(n, "Str")
		e.assume(fmt.Sprintf("(= (slen %s) %s)", n, e.ilit(int64(len(s)))))
		for i, c := range []byte(s) {
			if i >= 32 {
				break
			}
			e.assume(fmt.Sprintf("(= (sat %s %s) %d)", n, e.ilit(int64(i)), c))
		}
	}
	return n
}

func (e *enc) slen(s string) string {
	if e.strTheory {
		return "(str.len " + s + ")"
	}
	return "(slen " + s + ")"
}

func (e *enc) havoc(v ssa.Value) string {
	t := v.Type()
	n := "t_" + v.Name()
	if _, ok := v.(*ssa.Parameter); ok {
		n = "p_" + v.Name()
	}
	e.names[v] = n
	// Facts about the value of an instruction hold where the instruction is executed: together with
	// an unconditional definition (t = xs[a:b], t = make(n) ...) an unconditional "0 <= len(t)" would
	// constrain a and b on the paths that never slice.
	old := e.factGuard
	e.factGuard = ""
	if ins, ok := v.(ssa.Instruction); ok && ins.Block() != nil {
		e.factGuard = e.reach[ins.Block()]
	}
	defer func() { e.factGuard = old }()
	if tt, ok := t.(*types.Tuple); ok {
		for k := 0; k < tt.Len(); k++ {
			e.declValue(fmt.Sprintf("%s.c%d", n, k), tt.At(k).Type())
		}
		return n
	}
	e.declValue(n, t)
	return n
}

// declValue declares a constant of the sort of t and adds the universally true facts about it.
func (e *enc) declValue(n string, t types.Type) {
	s := e.sortOf(t)
	if s == "TUPLE" {
		return
	}
	if e.declared[n] {
		return
	}
	e.decl(n, s)
	e.typeFacts(n, t)
}

func (e *enc) typeFacts(n string, t types.Type) {
	assume := func(f string) { e.assumeAt(e.factGuard, f) }
	switch e.sortOf(t) {
	case "Slice":
		assume(e.wfSlice(n))
	case "ISort":
		if isUnsigned(t) && !e.bv {
			assume(fmt.Sprintf("(>= %s 0)", n))
		}
		if b, ok := t.Underlying().(*types.Basic); ok && b.Kind() == types.Uint8 {
			if e.bv {
				assume(fmt.Sprintf("(bvule %s #x00000000000000ff)", n))
			} else {
				assume(fmt.Sprintf("(<= %s 255)", n))
			}
		}
	case "Ref":
		assume(fmt.Sprintf("(>= %s 0)", n))
	case "Iface":
		// interfaces never hold typed nil pointers (established at every MakeInterface: safe:typed-nil)
		assume(fmt.Sprintf("(=> (is-IPtr %s) (> (iptr %s) 0))", n, n))
		// a value of a non-empty interface type none of whose implementers is an uncomparable type
		// can always be compared (error values, for instance)
		if it, ok := t.Underlying().(*types.Interface); ok && it.NumMethods() > 0 && e.w.implsComparable(t) {
			assume(fmt.Sprintf("(not (uncomparable %s))", n))
		}
		// an unnamed basic type has no methods: it is never the dynamic type of a non-empty interface
		if it, ok := t.Underlying().(*types.Interface); ok && it.NumMethods() > 0 {
			assume(fmt.Sprintf("(not (or (is-IF64 %s) (is-IStr %s) (is-IBool %s)))", n, n, n))
			if !e.w.hasFloatImpl(t) {
				assume(fmt.Sprintf("(not (is-IFlt %s))", n)) // no named floating-point type implements it
			}
		}
		// dynamic type must be a possible one for the static interface type
		if it, ok := t.Underlying().(*types.Interface); ok && it.NumMethods() > 0 {
			if c := e.ifaceMembership(n, t); c != "" {
				assume(c)
			}
		}
	}
}

// ifaceMembership: x is nil or its dynamic type implements the (non-empty) interface.
func (e *enc) ifaceMembership(x string, t types.Type) string {
	impls := e.w.implementers(t)
	if len(impls) == 0 || len(impls) > 80 {
		return ""
	}
	var alts []string
	alts = append(alts, fmt.Sprintf("(= %s INil)", x))
	for _, it := range impls {
		alts = append(alts, e.typeTest(x, it))
	}
	return "(or " + strings.Join(alts, " ") + ")"
}

func (e *enc) wfSlice(n string) string {
	return fmt.Sprintf("(and %s %s %s (>= (arr %s) 0))", e.ige0("(len "+n+")"), e.ige0("(off "+n+")"),
		e.icmp(token.GEQ, "(cap "+n+")", "(len "+n+")", false), n)
}

func (e *enc) define(v ssa.Value, expr string) string {
	n := e.havoc(v)
	if expr != "" {
		e.assume(fmt.Sprintf("(= %s %s)", n, expr))
	}
	return n
}

func f64bits(f float64) string { return fmt.Sprintf("#x%016x", math.Float64bits(f)) }

func (e *enc) constVal(c *ssa.Const) string {
	s := e.sortOf(c.Type())
	if c.Value == nil {
		if z := e.zero(s); z != "" {
			return z
		}
		n := e.newName("zeroSV")
		e.decl(n, "SV")
		e.zeroSV(n, c.Type())
		return n
	}
	switch c.Value.Kind() {
	case constant.Bool:
		return fmt.Sprint(constant.BoolVal(c.Value))
	case constant.Int, constant.Float:
		if s == "F64" {
			f, _ := constant.Float64Val(c.Value)
			return f64bits(f)
		}
		if s == "ISort" {
			if i, ok := constant.Int64Val(c.Value); ok {
				return e.ilit(i)
			}
			if u, ok := constant.Uint64Val(c.Value); ok {
				return e.ulit(u)
			}
		}
	case constant.String:
		return e.strLit(constant.StringVal(c.Value))
	}
	n := e.newName("const")
	e.decl(n, sortName(s, e))
	e.note("const " + c.String())
	return n
}

func sortName(s string, e *enc) string { return s }

func (e *enc) zeroSV(n string, t types.Type) {
	st, ok := t.Underlying().(*types.Struct)
	if !ok {
		return
	}
	for i := 0; i < st.NumFields(); i++ {
		fs := e.sortOf(st.Field(i).Type())
		if z := e.zero(fs); z != "" {
			e.assume(fmt.Sprintf("(= %s %s)", e.fldGet(t, i, n), z))
		}
	}
}

// fldGet: value-struct field accessor.
func (e *enc) fldGet(t types.Type, i int, sv string) string {
	st := t.Underlying().(*types.Struct)
	fn := fmt.Sprintf("|fld_%s.%s|", sname(types.TypeString(t, qualName)), st.Field(i).Name())
	e.declFun(fn, fmt.Sprintf("(SV) %s", e.sortOf(st.Field(i).Type())))
	return fmt.Sprintf("(%s %s)", fn, sv)
}

func (e *enc) val(v ssa.Value) string {
	if n, ok := e.names[v]; ok {
		return n
	}
	switch c := v.(type) {
	case *ssa.Const:
		return e.constVal(c)
	case *ssa.Parameter:
		n := e.havoc(c)
		if e.sortOf(c.Type()) == "Iface" {
			e.harr("G_now", "Int")
			e.assume(fmt.Sprintf("(=> (or (is-IPtr %s) (is-IMap %s)) (< (birth (ite (is-IPtr %s) (iptr %s) (imap %s))) |G_now@0|))", n, n, n, n, n))
		}
		if e.sortOf(c.Type()) == "Slice" {
			e.harr("G_now", "Int")
			e.assume(fmt.Sprintf("(or (= (arr %s) 0) (< (birth (arr %s)) |G_now@0|))", n, n))
		}
		if _, ok := c.Type().Underlying().(*types.Pointer); ok {
			e.assume(e.allocated(n, e.entryState()))
			if e.opts != nil && e.opts.NonnilParams {
				e.assume(fmt.Sprintf("(not (= %s 0))", n))
			}
			if len(e.f.Params) > 0 && e.f.Params[0] == c && e.f.Signature.Recv() != nil {
				// a method with pointer receiver that touches the receiver would panic on nil at the caller's
				// dereference; receiver non-nil is a precondition checked at (static) call sites.
			}
		}
		return n
	case *ssa.FreeVar:
		n := "fv_" + c.Name()
		e.names[v] = n
		e.decl(n, "Ref")
		e.assume(fmt.Sprintf("(> %s 0)", n))
		e.assume(e.allocated(n, e.entryState()))
		el := c.Type().Underlying().(*types.Pointer).Elem()
		e.locs[v] = e.cellLoc(n, el)
		if closureFnSync(e.f) || freeVarStable(e.f, c) {
			// the captured variable belongs to the creating activation, which is suspended while we run
			pa := privAlloc{ref: n, arrs: map[string]bool{}}
			if _, isStruct := el.Underlying().(*types.Struct); isStruct {
				structArrays(el, pa.arrs, 0)
			} else {
				pa.arrs[arrCell(el)] = true
			}
			e.priv = append(e.priv, pa)
		}
		return n
	case *ssa.Global:
		n := "g_" + sname(c.Pkg.Pkg.Name()+"_"+c.Name())
		e.names[v] = n
		e.decl(n, "Ref")
		e.assume(fmt.Sprintf("(> %s 0)", n))
		e.assume(e.allocated(n, e.entryState()))
		el := c.Type().Underlying().(*types.Pointer).Elem()
		l := e.cellLoc(n, el)
		l.arr = "Glob_" + sname(c.Pkg.Pkg.Name()+"."+c.Name())
		e.locs[v] = l
		return n
	case *ssa.Function:
		n := e.fnConst(funcKey(c))
		e.names[v] = n
		return n
	case *ssa.Builtin:
		return "0"
	}
	e.note(fmt.Sprintf("val %T", v))
	return e.havoc(v)
}

// freeVarStable: the captured variable is never assigned after its initialisation, neither by the
// creating function nor by any closure capturing it.
func freeVarStable(fn *ssa.Function, fv *ssa.FreeVar) bool {
	p := fn.Parent()
	if p == nil {
		return false
	}
	idx := -1
	for i, x := range fn.FreeVars {
		if x == fv {
			idx = i
		}
	}
	if idx < 0 {
		return false
	}
	for _, b := range p.Blocks {
		for _, ins := range b.Instrs {
			if mc, ok := ins.(*ssa.MakeClosure); ok && mc.Fn == ssa.Value(fn) && idx < len(mc.Bindings) {
				switch src := mc.Bindings[idx].(type) {
				case *ssa.Alloc:
					return allocWrittenOnce(src)
				case *ssa.FreeVar:
					return freeVarStable(p, src)
				}
				return false
			}
		}
	}
	return false
}

func (e *enc) cellLoc(ref string, el types.Type) loc {
	if _, isStruct := el.Underlying().(*types.Struct); isStruct {
		return loc{kind: "struct", ref: ref, sort: "SV", t: el}
	}
	return loc{kind: "cell", arr: "Cell_" + sname(types.TypeString(el, qualName)), ref: ref, sort: e.sortOf(el), t: el}
}

func (e *enc) entryState() hstate {
	if e.entry != nil {
		return e.entry
	}
	return e.heap
}

// ---- heap ----

func (e *enc) smtSort(s string) string {
	if s == "ISort" {
		return e.isort()
	}
	return s
}

func (e *enc) hnameIn(a string, st hstate) string {
	v := 0
	if st != nil {
		v = st[a]
	}
	return fmt.Sprintf("|%s@%d|", a, v)
}

func (e *enc) hname(a string) string { return e.hnameIn(a, e.heap) }

// birthAxiom: every reference stored in this version of the array was allocated before the
// version came into being.
func (e *enc) birthAxiom(a string, v int) {
	srt := e.heapSort[a]
	if a == "G_now" || isGhostArr(a) || !e.w.stableArr(a) {
		return
	}
	cv := e.clockOf[fmt.Sprintf("%s@%d", a, v)]
	if _, isStore := e.storeOf[fmt.Sprintf("%s@%d", a, v)]; isStore {
		return // derived from its predecessor by the array theory
	}
	name := fmt.Sprintf("|%s@%d|", a, v)
	switch srt {
	case "(Array Ref Ref)":
		e.assume(fmt.Sprintf("(forall ((r Ref)) (! (or (= (select %s r) 0) (>= (birth r) |G_now@%d|) (< (birth (select %s r)) |G_now@%d|)) :pattern ((select %s r))))", name, cv, name, cv, name))
	case "(Array Ref Iface)":
		e.assume(fmt.Sprintf("(forall ((r Ref)) (! (=> (and (is-IPtr (select %s r)) (< (birth r) |G_now@%d|)) (< (birth (iptr (select %s r))) |G_now@%d|)) :pattern ((select %s r))))", name, cv, name, cv, name))
	}
}

func (e *enc) harr(a, sort string) {
	if _, ok := e.heapSort[a]; !ok {
		e.heapSort[a] = sort
		e.ver[a] = 0
		e.decl(fmt.Sprintf("|%s@0|", a), sort)
		if a != "G_now" {
			e.decl("|G_now@0|", "Int")
			e.birthAxiom(a, 0)
		}
		if e.rec != nil {
			e.rec.arrays[a] = sort
		}
	}
	if _, ok := e.heap[a]; !ok {
		e.heap[a] = 0
	}
}

func (e *enc) bump(a string) string {
	e.ver[a]++
	e.heap[a] = e.ver[a]
	if a != "G_now" {
		if e.clockOf == nil {
			e.clockOf = map[string]int{}
		}
		e.clockOf[fmt.Sprintf("%s@%d", a, e.ver[a])] = e.heap["G_now"]
		if !e.inStore {
			e.birthAxiom(a, e.ver[a])
		}
	}
	n := e.hname(a)
	e.decl(n, e.heapSort[a])
	if e.rec != nil && e.curInstr != nil {
		e.rec.writes[e.curInstr] = append(e.rec.writes[e.curInstr], a)
	}
	return n
}

func isGhostArr(a string) bool { return strings.HasPrefix(a, "G_") }

// havocHeap bumps all (non-ghost) arrays for which keep returns false. The allocation clock
// always moves on; objects private to this activation (non-escaping locals) keep their contents.
func (e *enc) havocHeap(keep func(string) bool) {
	arrs := []string{}
	for a := range e.heapSort {
		arrs = append(arrs, a)
	}
	sort.Strings(arrs)
	nowPre := e.now(e.heap)
	arrs = append([]string{"G_now"}, arrs...) // the clock moves first: new array versions may hold references born during the call
	for k, a := range arrs {
		if a == "G_now" && k > 0 {
			continue
		}
		if a == "G_now" {
			old := e.hname(a)
			nv := e.bump(a)
			e.assume(fmt.Sprintf("(>= %s %s)", nv, old))
			continue
		}
		if isGhostArr(a) {
			continue
		}
		if keep != nil && keep(a) {
			continue
		}
		if e.w.immutableArr(a) {
			continue
		}
		old := e.hname(a)
		nv := e.bump(a)
		if e.w.stableArr(a) {
			conds := []string{}
			for _, r := range e.curCallRefs {
				if e.w.frozenArr(a) {
					break // frozen: not even the objects handed to the call change
				}
				conds = append(conds, fmt.Sprintf("(not (= r %s))", r))
			}
			c := "true"
			if len(conds) > 0 {
				c = "(and " + strings.Join(conds, " ") + " true)"
			}
			e.assume(fmt.Sprintf("(forall ((r Ref)) (! (=> (and (< (birth r) %s) %s) (= (select %s r) (select %s r))) :pattern ((select %s r))))", nowPre, c, nv, old, nv))
		}
		for _, p := range e.priv {
			if p.arrs[a] && !e.callBinds[p.ref] {
				e.assume(fmt.Sprintf("(= (select %s %s) (select %s %s))", nv, p.ref, old, p.ref))
			}
		}
	}
	if e.rec != nil && e.curInstr != nil && keep == nil {
		e.rec.writes[e.curInstr] = append(e.rec.writes[e.curInstr], "*")
	}
}

func (e *enc) fieldArr(pt types.Type, st *types.Struct, i int) (string, string) {
	return "H_" + sname(types.TypeString(pt, qualName)) + "." + st.Field(i).Name(), e.sortOf(st.Field(i).Type())
}

func (e *enc) arrSortFor(l loc) string {
	switch l.kind {
	case "field", "cell":
		return "(Array Ref " + e.smtSort(l.sort) + ")"
	case "elem":
		return "(Array Ref (Array " + e.isort() + " " + e.smtSort(l.sort) + "))"
	}
	return ""
}

func (e *enc) loadIn(l loc, st hstate) string {
	switch l.kind {
	case "field", "cell":
		e.harr(l.arr, e.arrSortFor(l))
		return fmt.Sprintf("(select %s %s)", e.hnameIn(l.arr, st), l.ref)
	case "elem":
		e.harr(l.arr, e.arrSortFor(l))
		return fmt.Sprintf("(select (select %s %s) %s)", e.hnameIn(l.arr, st), l.ref, l.idx)
	}
	return ""
}

func (e *enc) load(l loc) string { return e.loadIn(l, e.heap) }

func (e *enc) store(l loc, v string) {
	switch l.kind {
	case "field", "cell":
		e.harr(l.arr, e.arrSortFor(l))
		old := e.hname(l.arr)
		prev := e.heap[l.arr]
		e.inStore = true
		nv := e.bump(l.arr)
		e.inStore = false
		if e.storeOf == nil {
			e.storeOf = map[string]storeRec{}
		}
		e.storeOf[fmt.Sprintf("%s@%d", l.arr, e.heap[l.arr])] = storeRec{l.ref, prev}
		e.assume(fmt.Sprintf("(= %s (store %s %s %s))", nv, old, l.ref, v))
	case "elem":
		e.harr(l.arr, e.arrSortFor(l))
		old := e.hname(l.arr)
		nv := e.bump(l.arr)
		e.assume(fmt.Sprintf("(= %s (store %s %s (store (select %s %s) %s %s)))", nv, old, l.ref, old, l.ref, l.idx, v))
	}
}

// allocation clock
func (e *enc) now(st hstate) string {
	e.harr("G_now", "Int")
	return e.hnameIn("G_now", st)
}

// allocFacts: whatever a value in scope refers to was allocated before now (not for values the
// instruction itself allocates).
// fnConst: the constant standing for a declared function used as a value. Different functions are
// different values.
func (e *enc) fnConst(key string) string {
	n := "fn_" + sname(key)
	if !e.declared[n] {
		e.decl(n, "Ref")
		e.assume(fmt.Sprintf("(> %s 0)", n))
		for _, o := range e.fnConsts {
			e.assume(fmt.Sprintf("(not (= %s %s))", n, o))
		}
		e.fnConsts = append(e.fnConsts, n)
	}
	return n
}

func (e *enc) allocFacts(n string, t types.Type) {
	if tt, ok := t.(*types.Tuple); ok {
		for k := 0; k < tt.Len(); k++ {
			e.allocFacts(fmt.Sprintf("%s.c%d", n, k), tt.At(k).Type())
		}
		return
	}
	now := e.now(e.heap)
	switch e.sortOf(t) {
	case "Ref":
		e.assume(fmt.Sprintf("(or (= %s 0) (< (birth %s) %s))", n, n, now))
	case "Slice":
		e.assume(fmt.Sprintf("(or (= (arr %s) 0) (< (birth (arr %s)) %s))", n, n, now))
	case "Iface":
		e.assume(fmt.Sprintf("(=> (is-IPtr %s) (< (birth (iptr %s)) %s))", n, n, now))
		e.assume(fmt.Sprintf("(=> (is-IMap %s) (< (birth (imap %s)) %s))", n, n, now))
	}
}

func (e *enc) allocated(r string, st hstate) string {
	return fmt.Sprintf("(or (= %s 0) (< (birth %s) %s))", r, r, e.now(st))
}

// allocatedIn: a reference read from version st[arr] of a heap array was allocated before that
// version came into being.
func (e *enc) allocatedIn(r, arr string, st hstate, at ...string) string {
	v := 0
	if st != nil {
		v = st[arr]
	}
	e.harr("G_now", "Int")
	var alts []string
	alts = append(alts, fmt.Sprintf("(= %s 0)", r))
	// versions made by a single store differ from their predecessor only at the stored reference
	for d := 0; d < 8 && len(at) > 0; d++ {
		so, ok := e.storeOf[fmt.Sprintf("%s@%d", arr, v)]
		if !ok {
			break
		}
		alts = append(alts, fmt.Sprintf("(= %s %s)", at[0], so.ref))
		v = so.prev
	}
	cv := e.clockOf[fmt.Sprintf("%s@%d", arr, v)] // 0 = entry clock for version 0
	if len(at) == 0 {
		return "true"
	}
	// objects born after the version came into being (allocated by callees that only write fresh
	// memory) may hold anything
	alts = append(alts, fmt.Sprintf("(>= (birth %s) |G_now@%d|)", at[0], cv))
	alts = append(alts, fmt.Sprintf("(< (birth %s) |G_now@%d|)", r, cv))
	return "(or " + strings.Join(alts, " ") + ")"
}

func (e *enc) allocFresh(n string) {
	e.assume(fmt.Sprintf("(> %s 0)", n))
	e.assume(fmt.Sprintf("(= (birth %s) %s)", n, e.now(e.heap)))
	old := e.now(e.heap)
	nv := e.bump("G_now")
	e.assume(fmt.Sprintf("(= %s (+ %s 1))", nv, old))
	e.localAlloc[n] = true
	e.allocSites = append(e.allocSites, n)
}

// ---- obligations ----

func (e *enc) add(class, label string, pos token.Pos, R, goal string) *Obl {
	k := class
	if label != "" {
		k += ":" + label
	}
	e.ordCount[k]++
	o := &Obl{Fn: e.key, Class: class, Label: label, Ord: e.ordCount[k], Path: R, Goal: goal, Pos: pos, Props: map[string]bool{}}
	o.ID = fmt.Sprintf("%s#%s:%d", e.key, k, o.Ord)
	o.At = len(e.asserts)
	if !pos.IsValid() && e.curInstr != nil {
		o.Pos = e.curInstr.Pos()
	}
	e.obls = append(e.obls, o)
	return o
}

func (e *enc) addI(class, label string, ins ssa.Instruction, R, goal string) *Obl {
	pos := ins.Pos()
	if !pos.IsValid() {
		pos = e.nearPos(ins)
	}
	o := e.add(class, label, pos, R, goal)
	if class == "safe" && goal != "false" {
		// execution continues past this point only if the check succeeded (assumptions are flow-ordered)
		e.assumeAt(R, goal)
	}
	return o
}

func (e *enc) nearPos(ins ssa.Instruction) token.Pos {
	b := ins.Block()
	if b == nil {
		return token.NoPos
	}
	seen := false
	var last token.Pos
	for _, i := range b.Instrs {
		if i == ins {
			seen = true
		}
		if p := i.Pos(); p.IsValid() {
			if seen {
				return p
			}
			last = p
		}
	}
	return last
}
