#!/bin/bash
# usage: import_seed.sh <PROP> <srcdir (with patch.diff demo_test.go meta.json)> <name>
# Confirms in a scratch worktree of /repo that the suite passes with the change, the demo fails with it
# and passes without it; then stores the change under /verif/seeded/<name>/.
set -u
export GOFLAGS=-mod=mod GOPROXY=off GOSUMDB=off GOTOOLCHAIN=local
PROP=$1; SRC=$2; NAME=$3
WT=/tmp/wt/verify-$NAME
git -C /repo worktree remove --force $WT 2>/dev/null
git -C /repo worktree add -q --detach $WT HEAD || exit 2
cd $WT
DEMODIR=$(python3 -c "import json;print(json.load(open('$SRC/meta.json')).get('demo_dir','interpreter'))")
DEMODIR=${DEMODIR%% *}; DEMODIR=${DEMODIR#./}; DEMODIR=${DEMODIR%/}; DEMODIR=${DEMODIR%,}
DEMOCMD=$(python3 -c "import json;print(json.load(open('$SRC/meta.json')).get('demo_cmd',''))")
RACE=""; if echo "$DEMOCMD" | grep -Eq 'go test[^|;(]*[[:space:]]-race'; then RACE="-race"; fi
run_demo() { cp $SRC/demo_test.go $WT/$DEMODIR/zz_seed_demo_test.go; (cd $WT && timeout 600 go test $RACE -vet=off -count=1 -run 'TestSeedDemo$' ./$DEMODIR > /tmp/seed_demo_$NAME.log 2>&1); rc=$?; rm -f $WT/$DEMODIR/zz_seed_demo_test.go; return $rc; }
run_demo; without=$?
git apply --whitespace=nowarn $SRC/patch.diff || { echo "SEED $NAME: patch does not apply"; git -C /repo worktree remove --force $WT; exit 1; }
go build ./parser ./interpreter ./scope ./util ./stdlib ./engine/... ./cli/... ./config > /tmp/seed_build_$NAME.log 2>&1; build=$?
go test -vet=off -count=1 ./parser ./interpreter ./scope ./util ./stdlib ./engine/... ./cli/... ./config > /tmp/seed_suite_$NAME.log 2>&1; suite=$?
run_demo; with=$?
cd /; git -C /repo worktree remove --force $WT
echo "SEED $NAME: build=$build suite=$suite demo_without=$without demo_with=$with"
if [ $build -eq 0 ] && [ $suite -eq 0 ] && [ $without -eq 0 ] && [ $with -ne 0 ]; then
  mkdir -p /verif/seeded/$NAME
  cp $SRC/patch.diff /verif/seeded/$NAME/patch.diff
  cp $SRC/demo_test.go /verif/seeded/$NAME/demo_test.go
  python3 - <<PY
import json
m=json.load(open('$SRC/meta.json'))
m['property']='$PROP'
m['confirmed_by_builder']="scratch worktree of /repo HEAD: go build ok; unedited suite (go test -vet=off -count=1 ./parser ./interpreter ./scope ./util ./stdlib ./engine/... ./cli/... ./config) passes with the change; demo (go test $RACE -run TestSeedDemo ./$DEMODIR) fails with the change and passes without it"
m['source']='independent sub-agent (given only the property text and its own worktree)'
json.dump(m,open('/verif/seeded/$NAME/meta.json','w'),indent=1)
PY
  echo "SEED $NAME: kept"
else
  echo "SEED $NAME: REJECTED (see /tmp/seed_*_$NAME.log)"; tail -5 /tmp/seed_suite_$NAME.log /tmp/seed_demo_$NAME.log
fi
