package main

import "regexp"

// Property registry: what each check covers beyond the functions tagged in contract files.

func init() {
	registerProp(&PropSpec{ID: "C14", Title: "String interpolation evaluates only the literal's own expressions, once", MinObls: 10, Classes: regexp.MustCompile(`^(post|inv|dec|pre|safe:(slice|index))`),
		TrustedBase: []string{"SMT-LIB string theory as the model of Go strings (byte sequences)", "extern contracts strings.Index (spec/extern.gvc)"},
		NotDecided:  []string{"escape decoding in the lexer (lexValue) is covered by C08/C18 contracts, not here"}})
}
