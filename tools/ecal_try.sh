#!/bin/bash
# usage: run.sh 'ecal program' ...
export GOFLAGS=-mod=mod GOPROXY=off GOSUMDB=off GOTOOLCHAIN=local
{
cat <<'GO'
package interpreter

import (
	"fmt"
	"testing"

	"github.com/krotik/ecal/parser"
	"github.com/krotik/ecal/scope"
	"github.com/krotik/ecal/util"
)

func tryOne(src string) {
	defer func() {
		if r := recover(); r != nil {
			fmt.Printf("PANIC %q: %v\n", src, r)
		}
	}()
	erp := NewECALRuntimeProvider("replay", nil, util.NewMemoryLogger(100))
	ast, err := parser.ParseWithRuntime("replay", src, erp)
	if err != nil {
		fmt.Printf("PARSE-ERROR %q: %v\n", src, err)
		return
	}
	if err = ast.Runtime.Validate(); err != nil {
		fmt.Printf("VALIDATE-ERROR %q: %v\n", src, err)
		return
	}
	vs := scope.NewScope(scope.GlobalScope)
	res, err := ast.Runtime.Eval(vs, make(map[string]interface{}), 1)
	fmt.Printf("OK %q: %v / %v\n", src, res, err)
}

func TestZZTry(t *testing.T) {
GO
for p in "$@"; do printf '\ttryOne(%s)\n' "$(python3 -c 'import json,sys;print(json.dumps(sys.argv[1]))' "$p")"; done
echo "}"
} > /tmp/etry/zz_try_test.go
echo '{"Replace":{"/repo/interpreter/zz_try_test.go":"/tmp/etry/zz_try_test.go"}}' > /tmp/etry/ov.json
cd /repo && go test -overlay /tmp/etry/ov.json -vet=off -count=1 -timeout 60s -v -run TestZZTry ./interpreter 2>&1 | grep "^PANIC\|^OK\|^PARSE\|^VALIDATE\|panic\|FAIL" | cut -c1-300
