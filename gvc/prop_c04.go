package main

import "regexp"

func init() {
	registerProp(&PropSpec{ID: "C04", Title: "Control flow and try/except/otherwise/finally follow the reference semantics", MinObls: 30,
		Classes:     regexp.MustCompile(`^(pre|post|inv|dec|assert|finding|frame)`),
		TrustedBase: []string{"SMT FloatingPoint for range arithmetic", "ghost call results / counters", "Go defer semantics (finally)"},
		Assumptions: []string{"child counts of statement nodes (C07 / tree-well-formed)", "the evaluation of a child is the oracle: contracts speak about which children are evaluated, in which order and what happens with their results"},
		NotDecided:  []string{"iteration over lists and maps through the iterator closures (key order is sortutil.InterfaceStrings of the dependency krotik/common)", "function call argument binding (C05)"}})
}
