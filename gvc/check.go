package main

// Property checks: select the functions and obligations serving a property, discharge them,
// run vacuity probes, replay counterexamples, write evidence, print VIOLATION / KNOWN-FINDING lines.

import (
	"encoding/json"
	"fmt"
	"os"
	"path/filepath"
	"regexp"
	"sort"
	"strconv"
	"strings"
	"sync"
	"time"

	"go/types"

	"golang.org/x/tools/go/ssa"
)

type KnownFinding struct {
	Property   string            `json:"property"`
	Obligation string            `json:"obligation"`
	What       string            `json:"what"`
	Witness    map[string]string `json:"witness,omitempty"`
}

type KnownFile struct {
	Findings []KnownFinding    `json:"findings"`
	Fixed    []json.RawMessage `json:"fixed"`
}

type PropSpec struct {
	ID          string
	Title       string
	Classes     *regexp.Regexp                                  // obligation classes that belong to the property for tagged functions (nil = all)
	Extra       func(c *Checker)                                // additional, property specific obligations / analyses
	Replay      func(c *Checker, o *Obl) map[string]interface{} // property-level replay for obligations without a recipe
	MinObls     int
	SafeFns     *regexp.Regexp  // if set: no-panic obligations are kept only for functions whose key matches
	SweepPkgs   map[string]bool // every function of these packages is encoded (zero-annotation obligations of the property's classes)
	SweepSkip   *regexp.Regexp  // source files left out of the sweep
	TrustedBase []string
	Assumptions []string
	NotDecided  []string
}

type Checker struct {
	W       *World
	Prop    *PropSpec
	Tier    string
	Seed    int
	Timeout int
	Dir     string
	Verif   string
	Encs    []*enc
	EncOf   map[*Obl]*enc
	Obls    []*Obl
	Bounded []map[string]interface{}
	// BoundedViol: failures of bounded stand-in checks (each becomes a VIOLATION with its own replay file)
	BoundedViol []map[string]interface{}
	Audits      []map[string]interface{}
	Notes       []string
	engineErr   []string
	mu          sync.Mutex
}

var propSpecs = map[string]*PropSpec{}

func registerProp(p *PropSpec) { propSpecs[p.ID] = p }

func cmdCheck(args []string, repo, spec string, timeout int, verbose bool) int {
	if len(args) < 1 {
		fatalf("usage: gvc check <PROPERTY> [quick|thorough]")
	}
	id := args[0]
	tier := "quick"
	if len(args) > 1 {
		tier = args[1]
	}
	if t := os.Getenv("VERIF_TIER"); t != "" && len(args) < 2 {
		tier = t
	}
	seed, _ := strconv.Atoi(os.Getenv("VERIF_SEED"))
	ps := propSpecs[id]
	if ps == nil {
		fatalf("unknown property %s", id)
	}
	verif := os.Getenv("VERIF_DIR")
	if verif == "" {
		verif = "/verif"
	}
	t0 := time.Now()
	w, err := LoadWorld(repo, spec)
	if err != nil {
		fmt.Printf("ENGINE-ERROR property=%s cannot load %s with tag verif: %v\n", id, repo, err)
		return 2
	}
	if len(w.CS.Errors) > 0 {
		for _, e := range w.CS.Errors {
			fmt.Println("ENGINE-ERROR contract file:", e)
		}
		return 2
	}
	dir, _ := os.MkdirTemp("", "gvc."+id+".")
	if keepSMT {
		fmt.Println("SMT files kept in", dir)
	} else {
		defer os.RemoveAll(dir)
	}
	if tier == "thorough" {
		timeout *= 6
	}
	c := &Checker{W: w, Prop: ps, Tier: tier, Seed: seed, Timeout: timeout, Dir: dir, Verif: verif, EncOf: map[*Obl]*enc{}}
	c.selectAndEncode()
	c.reliedContracts()
	c.invariantWriters()
	c.writersObligations()
	c.ifaceTypeObligations()
	c.frameObligations()
	c.frozenObligations()
	if ps.Extra != nil {
		ps.Extra(c)
	}
	for _, k := range loadKnown(verif).Findings {
		if k.Property == id {
			knownObl[k.Obligation] = true
		}
	}
	c.dischargeAll()
	return c.report(t0, verbose)
}

// selectAndEncode picks every function whose contract is tagged with the property.
func (c *Checker) selectAndEncode() {
	var keys []string
	for k, fc := range c.W.CS.Funcs {
		for _, p := range fc.Props {
			if p == c.Prop.ID && !fc.Trusted {
				keys = append(keys, k)
			}
		}
	}
	sort.Strings(keys)
	done := map[*ssa.Function]bool{}
	for _, k := range keys {
		f := c.W.Funcs[k]
		if f == nil || f.Blocks == nil {
			c.engineErr = append(c.engineErr, fmt.Sprintf("contract for %s: no such function in %s (renamed or removed?)", k, c.W.Repo))
			continue
		}
		if done[f] {
			continue // several blocks of one function carry the tag
		}
		done[f] = true
		c.addFunc(f, nil)
	}
	if c.Prop.SweepPkgs != nil {
		for _, f := range c.W.FuncList {
			if done[f] || f.Blocks == nil || f.Pkg == nil || !c.Prop.SweepPkgs[f.Pkg.Pkg.Name()] {
				continue
			}
			if fc := c.W.CS.Funcs[funcKey(f)]; fc != nil && fc.Trusted {
				continue
			}
			file := c.W.Fset.Position(f.Pos()).Filename
			if strings.HasSuffix(file, "_test.go") || (c.Prop.SweepSkip != nil && c.Prop.SweepSkip.MatchString(file)) || !f.Pos().IsValid() {
				continue
			}
			c.addFunc(f, nil)
		}
	}
}

// writersObligations: "type T writers f: fns | Cnn" — every non-constructor store to T.f lies in a listed function.
func (c *Checker) writersObligations() {
	w := c.W
	var keys []string
	for k := range w.CS.Types {
		keys = append(keys, k)
	}
	sort.Strings(keys)
	for _, k := range keys {
		td := w.CS.Types[k]
		for _, wd := range td.Writers {
			mine := false
			for _, p := range wd.Props {
				if p == c.Prop.ID {
					mine = true
				}
			}
			if !mine {
				continue
			}
			w.immutableArr("")
			arr := "H_" + td.Pkg + "." + td.Type + "." + wd.Field
			allowed := map[string]bool{}
			for _, f := range wd.Funcs {
				allowed[f] = true
			}
			var ws []string
			for f := range w.Mod.Writers[arr] {
				ws = append(ws, f)
			}
			sort.Strings(ws)
			var holder *enc
			for _, fk := range ws {
				f := w.Funcs[fk]
				if f == nil {
					continue
				}
				e := c.structEnc(f)
				if holder == nil {
					holder = e
				}
				c.addStruct(e, "frame", "writers:"+td.Type+"."+wd.Field, f.Pos(), allowed[fk], fmt.Sprintf("%s stores to %s.%s of an existing object; allowed writers: %v", fk, td.Type, wd.Field, wd.Funcs))
			}
			if holder == nil {
				// no writer at all (the field is constructor-only): still one obligation recording the scan
				for _, fk := range wd.Funcs {
					if f := w.Funcs[fk]; f != nil {
						holder = c.structEnc(f)
						break
					}
				}
			}
			if holder != nil {
				c.addStruct(holder, "frame", "writers-scan:"+td.Type+"."+wd.Field, holder.f.Pos(), true, fmt.Sprintf("all stores to %s.%s outside constructors: %v", td.Type, wd.Field, ws))
			} else {
				c.engineErr = append(c.engineErr, fmt.Sprintf("%s:%d: writers clause names no existing function", wd.File, wd.Line))
			}
		}
	}
}

var onlyRe = func() *regexp.Regexp {
	if s := os.Getenv("GVC_ONLY"); s != "" {
		return regexp.MustCompile(s) // development aid: restrict a check to some functions (never set by ./check users)
	}
	return nil
}()

func (c *Checker) addFunc(f *ssa.Function, filter func(*Obl) bool) *enc {
	if onlyRe != nil && !onlyRe.MatchString(funcKey(f)) {
		e := &enc{w: c.W, f: f, key: funcKey(f), assumptions: map[string]bool{}, notes: map[string]int{}}
		return e
	}
	e := encodeFunc(c.W, f, &EncOpts{})
	c.Encs = append(c.Encs, e)
	if !e.ok {
		o := e.add("subset", "encode", f.Pos(), "true", "false")
		o.Struct = true
		o.Note = fmt.Sprintf("function could not be encoded: %v", e.notes)
	}
	e.vacuityProbes()
	var keep []*Obl
	for _, o := range e.obls {
		if filter != nil && !filter(o) {
			continue
		}
		if filter == nil && c.Prop.Classes != nil && !c.Prop.Classes.MatchString(o.Class+":"+o.Label) && o.Class != "reach" && o.Class != "contract" && o.Class != "subset" {
			continue
		}
		if c.Prop.SafeFns != nil && o.Class == "safe" && !c.Prop.SafeFns.MatchString(e.key) {
			continue
		}
		o.Props[c.Prop.ID] = true
		keep = append(keep, o)
		c.EncOf[o] = e
	}
	e.obls = keep
	c.Obls = append(c.Obls, keep...)
	return e
}

// vacuityProbes adds, per function under contract, probes that must be refuted by a model:
// the entry (preconditions satisfiable) and every return (exit reachable).
func (e *enc) vacuityProbes() {
	if e.fc == nil {
		return
	}
	o := e.add("reach", "entry", e.f.Pos(), "true", "false")
	o.At = e.entryAt
	o.Note = "probe: must be satisfiable (preconditions not contradictory)"
	n := 0
	for _, b := range e.f.Blocks {
		if len(b.Instrs) == 0 || e.reach[b] == "" {
			continue
		}
		if _, ok := b.Instrs[len(b.Instrs)-1].(*ssa.Return); ok {
			n++
			o := e.add("reach", "return", b.Instrs[len(b.Instrs)-1].Pos(), e.reach[b], "false")
			o.Note = "probe: must be satisfiable (exit reachable under the contract)"
			o.At = len(e.asserts)
		}
	}
}

func (c *Checker) dischargeAll() {
	var wg sync.WaitGroup
	sem := make(chan bool, 16)
	for i, e := range c.Encs {
		wg.Add(1)
		sem <- true
		go func(i int, e *enc) {
			defer wg.Done()
			discharge(e, c.Dir, i, c.Timeout, e.obls)
			<-sem
		}(i, e)
	}
	wg.Wait()
}

func loadKnown(verif string) *KnownFile {
	kf := &KnownFile{}
	b, err := os.ReadFile(filepath.Join(verif, "known_findings.json"))
	if err == nil {
		json.Unmarshal(b, kf)
	}
	return kf
}

func (c *Checker) report(t0 time.Time, verbose bool) int {
	id := c.Prop.ID
	known := loadKnown(c.Verif)
	knownBy := map[string]*KnownFinding{}
	for i := range known.Findings {
		k := &known.Findings[i]
		if k.Property == id {
			knownBy[k.Obligation] = k
		}
	}
	var total, discharged int
	byClass := map[string]int{}
	bySolver := map[string]int{}
	var solverMs int64
	var samples []interface{}
	var slow []*Obl
	var failed []*Obl
	var knownHit []map[string]string
	probes, probesOK := 0, 0
	fnSet := map[string]bool{}
	assum := map[string]bool{}
	notes := map[string]int{}
	models := map[string]string{}
	var mathFns, bvFns []string
	for _, e := range c.Encs {
		fnSet[e.key] = true
		for a := range e.assumptions {
			assum[a] = true
		}
		for k, v := range e.notes {
			notes[e.key+": "+k] += v
		}
		if e.fc != nil {
			mode := "ints=math"
			if e.bv {
				mode = "ints=bv64"
			}
			if e.strTheory {
				mode += " strings=theory"
			} else {
				mode += " strings=opaque"
			}
			if !e.bv {
				mathFns = append(mathFns, e.key)
			} else {
				bvFns = append(bvFns, e.key)
			}
			_ = mode
		}
	}
	sort.Strings(mathFns)
	sort.Strings(bvFns)
	switch {
	case len(mathFns) > 8:
		assum[fmt.Sprintf("machine integers treated as mathematical integers (no overflow) in %d functions under contract: all but the %d encoded with 64-bit vectors %v", len(mathFns), len(bvFns), bvFns)] = true
	default:
		for _, k := range mathFns {
			assum["machine integers treated as mathematical integers in "+k] = true
		}
	}
	for _, o := range c.Obls {
		if o.Class == "reach" {
			probes++
			switch o.Result {
			case "sat", "unknown", "timeout":
				probesOK++
			case "unsat":
				c.engineErr = append(c.engineErr, fmt.Sprintf("vacuity probe %s answered %s: the path is dead under the contract's assumptions", o.ID, o.Result))
			default:
				// the solver session broke off (killed, out of time as a whole): the probe is undecided,
				// which is no evidence of a dead path - only a refutation is
				c.Notes = append(c.Notes, fmt.Sprintf("vacuity probe %s undecided (%s)", o.ID, o.Result))
			}
			continue
		}
		if kf := knownBy[o.ID]; kf != nil {
			if o.Result == "unsat" {
				c.Notes = append(c.Notes, "known finding "+o.ID+" now discharges: stale entry in known_findings.json")
				total++
				discharged++
			} else {
				knownHit = append(knownHit, map[string]string{"obligation": o.ID, "what": kf.What, "result": o.Result})
			}
			continue
		}
		total++
		byClass[o.Class]++
		solverMs += o.Ms
		if o.Result == "unsat" {
			discharged++
			bySolver[o.Solver]++
			if len(samples) < 6 && !o.Struct {
				samples = append(samples, map[string]interface{}{"obligation": o.ID, "at": shortPos(c.W.Fset, o.Pos), "goal": truncate(o.Goal, 300), "solver": o.Solver, "ms": o.Ms})
			}
			slow = append(slow, o)
		} else {
			failed = append(failed, o)
		}
	}
	sort.Slice(slow, func(i, j int) bool { return slow[i].Ms > slow[j].Ms })
	var slowest []map[string]interface{}
	for i := 0; i < len(slow) && i < 5; i++ {
		slowest = append(slowest, map[string]interface{}{"obligation": slow[i].ID, "ms": slow[i].Ms, "solver": slow[i].Solver})
	}
	exit := 0
	var violations []string
	os.RemoveAll(filepath.Join(c.Verif, "replays", id)) // replay files describe this run only
	os.MkdirAll(filepath.Join(c.Verif, "replays", id), 0755)
	for _, o := range failed {
		e := c.EncOf[o]
		model := ""
		if e != nil && !o.Struct {
			model = fetchModel(e, o, c.Dir, c.Timeout)
		}
		models[o.ID] = model
		rp := c.replay(o, e, model)
		if rp["confirmed"] != true && c.Prop.Replay != nil {
			if r2 := c.Prop.Replay(c, o); r2 != nil {
				rp = r2
			}
		}
		path := filepath.Join(c.Verif, "replays", id, sname(o.ID)+".json")
		rp["obligation"] = o.ID
		rp["property"] = id
		rp["at"] = shortPos(c.W.Fset, o.Pos)
		rp["class"] = o.Class
		rp["goal"] = o.Goal
		rp["path_condition"] = o.Path
		rp["solver_result"] = o.Result
		rp["solver"] = o.Solver
		rp["solver_output"] = truncate(model, 6000)
		rp["note"] = o.Note
		if e != nil && e.fc != nil {
			rp["contract_file"] = e.fc.File
		}
		b, _ := json.MarshalIndent(rp, "", " ")
		os.WriteFile(path, b, 0644)
		line := fmt.Sprintf("VIOLATION property=%s replay=%s", id, path)
		if rp["confirmed"] != true {
			line += " no-failing-input-found"
		}
		violations = append(violations, line)
		fmt.Printf("FAILED-OBLIGATION %s at %s: solver=%s result=%s %s\n", o.ID, shortPos(c.W.Fset, o.Pos), o.Solver, o.Result, o.Note)
		exit = 1
	}
	for _, bv := range c.BoundedViol {
		name, _ := bv["obligation"].(string)
		if kf := knownBy[name]; kf != nil {
			knownHit = append(knownHit, map[string]string{"obligation": name, "what": kf.What, "result": "bounded check fails"})
			continue
		}
		path := filepath.Join(c.Verif, "replays", id, sname(name)+".json")
		bv["property"] = id
		bv["class"] = "bounded"
		b, _ := json.MarshalIndent(bv, "", " ")
		os.WriteFile(path, b, 0644)
		line := fmt.Sprintf("VIOLATION property=%s replay=%s", id, path)
		if bv["confirmed"] != true {
			line += " no-failing-input-found"
		}
		violations = append(violations, line)
		fmt.Printf("FAILED-BOUNDED-CHECK %s: %v\n", name, bv["outcome"])
		exit = 1
	}
	for _, k := range knownHit {
		fmt.Printf("KNOWN-FINDING: property=%s %s — %s\n", id, k["obligation"], k["what"])
	}
	if total < c.Prop.MinObls {
		c.engineErr = append(c.engineErr, fmt.Sprintf("only %d obligations generated for %s, expected at least %d (contracts detached or functions missing?)", total, id, c.Prop.MinObls))
	}
	for _, e := range c.Encs {
		if e.fc != nil && len(e.fc.Loops) > 0 && e.order != nil {
			for n := range e.fc.Loops {
				if n > len(e.headers) {
					c.engineErr = append(c.engineErr, fmt.Sprintf("%s: contract names loop %d but the function has %d loops", e.key, n, len(e.headers)))
				}
			}
		}
	}
	if len(c.engineErr) > 0 {
		// Contract/code mismatch is reported as a violation of a named structural obligation (DESIGN §4.4):
		// the code in the cone of the property no longer matches what the proof was about.
		for i, m := range c.engineErr {
			path := filepath.Join(c.Verif, "replays", id, fmt.Sprintf("structure_%d.json", i))
			b, _ := json.MarshalIndent(map[string]interface{}{"property": id, "obligation": id + "#structure:" + strconv.Itoa(i), "reason": m, "confirmed": false}, "", " ")
			os.WriteFile(path, b, 0644)
			fmt.Printf("FAILED-OBLIGATION %s#structure:%d %s\n", id, i, m)
			violations = append(violations, fmt.Sprintf("VIOLATION property=%s replay=%s no-failing-input-found", id, path))
		}
		exit = 1
	}
	var fns []string
	for f := range fnSet {
		fns = append(fns, f)
	}
	sort.Strings(fns)
	var as []string
	for a := range assum {
		as = append(as, a)
	}
	as = append(as, c.Prop.Assumptions...)
	sort.Strings(as)
	var ns []string
	for n, k := range notes {
		ns = append(ns, fmt.Sprintf("%s (x%d)", n, k))
	}
	sort.Strings(ns)
	if samples == nil {
		samples = []interface{}{}
	}
	cov := map[string]interface{}{
		"obligations": total, "discharged": discharged,
		"checker_cmd":  fmt.Sprintf("bin/gvc check %s %s  (VCs over go/ssa of %s, tag verif; solvers z3-new 5.1.0, z3 4.8.12, cvc5 1.0; per-obligation timeout %d ms)", id, c.Tier, c.W.Repo, c.Timeout),
		"trusted_base": append([]string{"go/types + go/ssa (x/tools v0.29.0) as the semantics of the Go subset", "gvc SSA->SMT translation (this repository, /verif/gvc)", "SMT solvers: an unsat answer of one solver is believed", "postconditions, invariants and site assertions are partial-correctness statements about executions that get there: a run-time panic on the way is a failed safe:* obligation where the property includes that class (by_class says which) and is otherwise outside the statement; execution resumed by recover() is not modelled (C19 treats it structurally)"}, c.Prop.TrustedBase...),
		"samples":      samples, "functions_under_contract": fns, "by_class": byClass, "by_solver": bySolver, "solver_ms_total": solverMs,
		"slowest": slowest, "vacuity_probes": probes, "vacuity_probes_ok": probesOK, "known_findings": knownHit, "bounded": c.Bounded, "audits": c.Audits,
		"abstractions": ns, "not_decided": c.Prop.NotDecided, "notes": c.Notes, "contract_files": c.W.CS.Files,
		"evaluations": total, "distinct_nontrivial": discharged,
		"rule": "one evaluation = one verification condition generated from the current SSA of a function under contract; all are distinct (named per site); non-trivial = sent to an SMT solver or decided structurally and discharged",
	}
	ev := map[string]interface{}{"property_id": id, "tier": c.Tier, "seed": c.Seed, "level": "proof", "coverage": cov, "assumptions": as,
		"wall_s": time.Since(t0).Seconds(), "violations": len(violations)}
	os.MkdirAll(filepath.Join(c.Verif, "evidence"), 0755)
	b, _ := json.MarshalIndent(ev, "", " ")
	os.WriteFile(filepath.Join(c.Verif, "evidence", id+".json"), b, 0644)
	fmt.Printf("%s %s: %d/%d obligations discharged over %d functions, %d known findings, %d probes, %.1fs\n", id, c.Tier, discharged, total, len(fns), len(knownHit), probes, time.Since(t0).Seconds())
	for _, v := range violations {
		fmt.Println(v)
	}
	if verbose {
		for _, o := range c.Obls {
			fmt.Printf("  %-8s %s %s %dms\n", o.Result, o.ID, o.Solver, o.Ms)
		}
	}
	return exit
}

var _ = strings.Join

// frameObligations: every declared frame ("assigns") the property's functions rely on — their own
// and those of the contracts applied at their call sites, interface contracts included — is
// compared with the inferred transitive write set of the function bodies it speaks for
// (whole-program mod-ref over the SSA; writes to objects allocated by the activation do not
// count). A frame marked trusted / trusted-frame is listed as an assumption instead.
func (c *Checker) frameObligations() {
	w := c.W
	w.immutableArr("")
	type job struct {
		fc  *FuncContract
		key string
	}
	// postconditions of interface contracts relied on at invoke sites: every implementer proves them
	encoded := map[*ssa.Function]bool{}
	for _, e := range c.Encs {
		encoded[e.f] = true
	}
	for k := 0; k < len(c.Encs); k++ {
		e := c.Encs[k]
		var ks []string
		for fc, key := range e.usedFCs {
			if len(fc.Ensures) > 0 && !fc.Trusted {
				ks = append(ks, key)
			}
		}
		sort.Strings(ks)
		for _, key := range ks {
			if strings.HasPrefix(key, "functype:") {
				// every function of the package with the signature of the named function type
				for _, f := range w.FuncList {
					if encoded[f] || f.Blocks == nil || f.Signature.Recv() != nil || f.Parent() != nil || f.Pkg == nil {
						continue
					}
					probe := &enc{w: w, f: f}
					for _, ii := range probe.ifaceContractsOf(f) {
						if ii.key == key {
							encoded[f] = true
							c.addFunc(f, func(o *Obl) bool {
								return o.Class == "contract" || o.Class == "subset" || (o.Class == "post" && strings.HasPrefix(o.Label, "iface:"))
							})
						}
					}
				}
				continue
			}
			it, m := w.ifaceMethod(key)
			if m == nil {
				continue
			}
			for _, f := range w.Mod.implMethodsRaw(it, m) {
				if encoded[f] {
					continue
				}
				encoded[f] = true
				c.addFunc(f, func(o *Obl) bool {
					return o.Class == "contract" || o.Class == "subset" || (o.Class == "post" && strings.HasPrefix(o.Label, "iface:"))
				})
			}
		}
	}
	// preconditions relied on by the functions under check: every call site in the repository proves them
	nFull := len(c.Encs)
	for k := 0; k < nFull; k++ {
		e := c.Encs[k]
		if e.order == nil {
			continue
		}
		need := map[string]bool{}
		if e.fc != nil && len(e.fc.Requires) > 0 && !e.fc.Trusted {
			need[funcKey(e.f)] = true
		}
		for _, ii := range e.ifaceContracts() {
			if len(ii.fc.Requires) > 0 {
				need[funcKey(e.f)] = true
				need[ii.key] = true
			}
		}
		if len(need) == 0 {
			continue
		}
		var callers []*ssa.Function
		for _, g := range w.FuncList {
			if w.Mod.Callees[g][e.f] && !encoded[g] {
				callers = append(callers, g)
			}
		}
		for _, g := range callers {
			encoded[g] = true
			c.addFunc(g, func(o *Obl) bool {
				return o.Class == "contract" || o.Class == "subset" || (o.Class == "pre" && need[o.Callee])
			})
		}
	}
	seen := map[*FuncContract]bool{}
	var jobs []job
	for _, e := range c.Encs {
		if e.fc != nil && !seen[e.fc] {
			seen[e.fc] = true
			jobs = append(jobs, job{e.fc, funcKey(e.f)})
		}
		var ks []*FuncContract
		for fc := range e.usedFCs {
			ks = append(ks, fc)
		}
		sort.Slice(ks, func(i, j int) bool { return e.usedFCs[ks[i]] < e.usedFCs[ks[j]] })
		for _, fc := range ks {
			if !seen[fc] {
				seen[fc] = true
				jobs = append(jobs, job{fc, e.usedFCs[fc]})
			}
		}
	}
	for _, j := range jobs {
		fc := j.fc
		if !fc.HasAssigns || fc.Trusted || fc.TrustedFrame {
			continue
		}
		var targets []*ssa.Function
		if f := w.Funcs[j.key]; f != nil {
			targets = []*ssa.Function{f}
		} else if it, m := w.ifaceMethod(j.key); m != nil {
			targets = w.Mod.implMethods(it, m)
		}
		for _, f := range targets {
			if f.Blocks == nil {
				continue
			}
			var bad []string
			for a := range w.Mod.Trans[f] {
				if assignsAllow(fc.Assigns, a) {
					continue
				}
				// "Elems_T@pkg.S.f" in the frame: only the slices held in field S.f are meant
				if fld := elemsVia(fc.Assigns, a); fld != "" {
					okAll := true
					for o, who := range w.Mod.elemsOrigins(f, a) {
						if o == "" || o == "H_"+fld || strings.HasSuffix(o, "."+fld) {
							okAll = false
							bad = append(bad, fmt.Sprintf("%s (through %q in %s)", a, o, who))
						}
					}
					if okAll {
						e := c.structEnc(f)
						e.assumptions["slices held in field "+fld+" share no backing array with slices of the same element type held in other fields (frame "+a+"@"+fld+")"] = true
						continue
					}
					continue
				}
				bad = append(bad, a)
			}
			sort.Strings(bad)
			e := c.structEnc(f)
			note := fmt.Sprintf("declared frame of %s: assigns %s; inferred writes of %s outside it: %v", j.key, strings.Join(fc.Assigns, ", "), funcKey(f), bad)
			c.addStruct(e, "frame", "assigns:"+j.key, f.Pos(), len(bad) == 0, note)
		}
	}
}

// assignsAllow: may a function with this frame write heap array arr (on a pre-existing object)?
func assignsAllow(assigns []string, arr string) bool {
	if len(assigns) > 0 && strings.HasPrefix(assigns[0], "* except ") {
		exc := append([]string{strings.TrimPrefix(assigns[0], "* except ")}, assigns[1:]...)
		for _, p := range exc {
			if matchArr(strings.TrimSpace(p), arr) {
				return false
			}
		}
		return true
	}
	for _, a := range assigns {
		if a == "*" || matchArr(a, arr) {
			return true
		}
	}
	return false
}

// elemsVia: the field of an "Elems_T@pkg.S.f" entry for array arr in the frame ("" if none).
func elemsVia(assigns []string, arr string) string {
	for i, a := range assigns {
		a = strings.TrimSpace(a)
		if i == 0 {
			a = strings.TrimPrefix(a, "* except ")
		}
		if k := strings.Index(a, "@"); k > 0 && a[:k] == arr {
			return a[k+1:]
		}
	}
	return ""
}

// ifaceMethod resolves "pkg.Iface.Method".
func (w *World) ifaceMethod(key string) (types.Type, *types.Func) {
	parts := strings.Split(key, ".")
	if len(parts) != 3 {
		return nil, nil
	}
	p := w.TPkgs[parts[0]]
	if p == nil {
		return nil, nil
	}
	tn, ok := p.Scope().Lookup(parts[1]).(*types.TypeName)
	if !ok {
		return nil, nil
	}
	it, ok := tn.Type().Underlying().(*types.Interface)
	if !ok {
		return nil, nil
	}
	for i := 0; i < it.NumMethods(); i++ {
		if it.Method(i).Name() == parts[2] {
			return tn.Type(), it.Method(i)
		}
	}
	return nil, nil
}

// ifaceTypeObligations: "iface-types I: T1, T2" closes an interface. Every conversion to I anywhere
// in the program must start from one of the listed types (MakeInterface), and nothing may be turned
// into an I by interface conversion or type assertion.
// frozenObligations: a field declared frozen is stored, on objects that are not fresh in the storing
// activation, only by functions of the declaring package (which builds the objects).
func (c *Checker) frozenObligations() {
	w := c.W
	w.immutableArr("")
	var keys []string
	for k := range w.CS.Types {
		keys = append(keys, k)
	}
	sort.Strings(keys)
	for _, k := range keys {
		td := w.CS.Types[k]
		for _, f := range td.Frozen {
			arr := "H_" + td.Pkg + "." + td.Type + "." + f
			used := false
			for _, e := range c.Encs {
				if _, ok := e.heapSort[arr]; ok {
					used = true
				}
			}
			if !used {
				continue
			}
			var ws, bad []string
			for fk := range w.Mod.Writers[arr] {
				ws = append(ws, fk)
				if !strings.HasPrefix(fk, td.Pkg+".") {
					bad = append(bad, fk)
				}
			}
			sort.Strings(ws)
			sort.Strings(bad)
			var holder *enc
			for _, e := range c.Encs {
				if _, ok := e.heapSort[arr]; ok && holder == nil {
					holder = c.structEnc(e.f)
				}
			}
			c.addStruct(holder, "frame", "frozen:"+td.Type+"."+f, holder.f.Pos(), len(bad) == 0,
				fmt.Sprintf("stores to %s.%s of objects not allocated by the storing activation: %d functions, outside package %s: %v", td.Type, f, len(ws), td.Pkg, bad))
		}
	}
}

func (c *Checker) ifaceTypeObligations() {
	w := c.W
	var keys []string
	for k := range w.CS.IfaceTypes {
		keys = append(keys, k)
	}
	sort.Strings(keys)
	for _, k := range keys {
		pkgName := strings.SplitN(k, ".", 2)[0]
		mine := false
		for _, e := range c.Encs {
			if e.f.Pkg != nil && e.f.Pkg.Pkg.Name() == pkgName {
				mine = true
			}
		}
		if !mine {
			continue
		}
		it, err := w.resolveType(pkgName, strings.SplitN(k, ".", 2)[1])
		if err != nil {
			c.engineErr = append(c.engineErr, fmt.Sprintf("%s: %v", w.CS.IfaceTypesAt[k], err))
			continue
		}
		allowed := w.implementers(it)
		isAllowed := func(t types.Type) bool {
			for _, a := range allowed {
				if types.Identical(a, t) {
					return true
				}
			}
			return false
		}
		var holder *enc
		n := 0
		for _, f := range w.FuncList {
			for _, b := range f.Blocks {
				for _, ins := range b.Instrs {
					bad := ""
					switch x := ins.(type) {
					case *ssa.MakeInterface:
						if types.Identical(x.Type(), it) {
							n++
							if !isAllowed(x.X.Type()) {
								bad = fmt.Sprintf("a %s is stored in a %s", x.X.Type(), k)
							}
						}
					case *ssa.ChangeInterface:
						if types.Identical(x.Type(), it) {
							bad = fmt.Sprintf("interface conversion to %s", k)
						}
					case *ssa.TypeAssert:
						if types.Identical(x.AssertedType, it) {
							bad = fmt.Sprintf("type assertion to %s", k)
						}
					}
					if bad != "" {
						e := c.structEnc(f)
						c.addStruct(e, "frame", "iface-types:"+k, ins.Pos(), false, bad+": the interface is declared closed over "+strings.Join(w.CS.IfaceTypes[k], ", "))
					}
				}
			}
			if holder == nil && f.Pkg != nil && f.Pkg.Pkg.Name() == pkgName && f.Blocks != nil {
				holder = c.structEnc(f)
			}
		}
		if holder != nil {
			c.addStruct(holder, "frame", "iface-types-scan:"+k, holder.f.Pos(), true, fmt.Sprintf("%d conversions to %s in the program, all from %s", n, k, strings.Join(w.CS.IfaceTypes[k], ", ")))
		}
	}
}

// invariantWriters (declaration closure): what a type declaration says about a field - an invariant,
// "never nil", "no nil values / elements", "guarded by this lock" - is assumed wherever an encoded
// function reads the field. That is only sound if every function of the program that writes the field
// (or into a container loaded from it), and for guarded fields every function that touches it at all,
// is held to the declaration too. Such functions that are not under contract for this property are
// therefore encoded as well, for exactly those obligations (inv:type / nonnil / vals-nonnil /
// nonnil-elems, lock:guard).
func (c *Checker) invariantWriters() {
	if onlyRe != nil {
		return
	}
	encoded := map[string]bool{}
	for _, e := range c.Encs {
		encoded[e.key] = true
	}
	classOK := func(cl string) bool { return c.Prop.Classes == nil || c.Prop.Classes.MatchString(cl) }
	var keys []string
	for k := range c.W.CS.Types {
		keys = append(keys, k)
	}
	sort.Strings(keys)
	filter := func(o *Obl) bool {
		switch o.Class {
		case "inv":
			for _, p := range []string{"type:", "nonnil:", "vals-nonnil:", "nonnil-elems:"} {
				if strings.HasPrefix(o.Label, p) {
					return classOK(o.Class + ":" + o.Label)
				}
			}
		case "lock":
			return strings.HasPrefix(o.Label, "guard:") && classOK(o.Class+":"+o.Label)
		case "escape":
			return classOK(o.Class + ":" + o.Label)
		}
		return false
	}
	for round := 0; round < 4; round++ {
		added := false
		for _, k := range keys {
			td := c.W.CS.Types[k]
			wf := invWriterFields(td)
			for _, f := range td.Nonnil {
				wf[f] = true
			}
			for _, f := range td.ValsNonnil {
				wf[f] = true
			}
			if td.NonnilElemsField != "" {
				wf[td.NonnilElemsField] = true
			}
			af := map[string]bool{}
			if classOK("lock:guard:") || classOK("escape:guarded-container:") {
				for f := range td.GuardedBy {
					af[f] = true
				}
			}
			if len(wf) == 0 && len(af) == 0 {
				continue
			}
			all := map[string]bool{}
			for f := range wf {
				all[f] = true
			}
			for f := range af {
				all[f] = true
			}
			// relied on: an encoded function touches one of the declared fields
			relied := false
			for _, e := range c.Encs {
				if e.f != nil && e.f.Blocks != nil && touchesField(e.f, td, all, false) {
					relied = true
					break
				}
			}
			if !relied {
				continue
			}
			for _, f := range c.W.FuncList {
				if f.Blocks == nil || f.Pkg == nil || !c.W.InRepo[f.Pkg] || encoded[funcKey(f)] {
					continue
				}
				if strings.HasSuffix(c.W.Fset.Position(f.Pos()).Filename, "_test.go") {
					continue
				}
				if !(touchesField(f, td, wf, true) || touchesField(f, td, af, false)) {
					continue
				}
				if fc := c.W.CS.Funcs[funcKey(f)]; fc != nil && fc.Trusted {
					c.Notes = append(c.Notes, fmt.Sprintf("%s touches declared fields of %s and is trusted: its keeping the declaration is an assumption", funcKey(f), k))
					continue
				}
				encoded[funcKey(f)] = true
				added = true
				c.addFunc(f, filter)
			}
		}
		if !added {
			break
		}
	}
}

// reliedContracts: a contract applied at a call site of an encoded function is an assumption there; it
// has to be an obligation somewhere. A function whose contract carries no property tag at all would be
// proved by no check: it is encoded here, for its postconditions and invariants. A contract tagged
// with other properties is proved by their checks; the reliance is listed.
func (c *Checker) reliedContracts() {
	if onlyRe != nil {
		return
	}
	encoded := map[string]bool{}
	for _, e := range c.Encs {
		encoded[e.key] = true
	}
	for round := 0; round < 6; round++ {
		added := false
		var jobs []string
		seen := map[string]bool{}
		for _, e := range c.Encs {
			for fc, key := range e.usedFCs {
				if fc.Trusted || fc.TrustedExtra || encoded[key] || seen[key] {
					continue
				}
				has := false
				for _, p := range fc.Props {
					has = has || p == c.Prop.ID
				}
				if has {
					continue
				}
				seen[key] = true
				if len(fc.Props) > 0 {
					if len(fc.Ensures) > 0 {
						e.assumptions[fmt.Sprintf("relies on the postconditions of %s, which are proved under %s", key, strings.Join(fc.Props, ", "))] = true
					}
					continue
				}
				if len(fc.Ensures) == 0 {
					continue // nothing assumed but its frame, which frame:assigns checks
				}
				jobs = append(jobs, key)
			}
		}
		sort.Strings(jobs)
		for _, key := range jobs {
			f := c.W.Funcs[key]
			if f == nil || f.Blocks == nil {
				continue
			}
			encoded[key] = true
			added = true
			c.addFunc(f, func(o *Obl) bool {
				return o.Class == "post" || o.Class == "inv" || o.Class == "pre" || o.Class == "assert" || o.Class == "dec"
			})
		}
		if !added {
			break
		}
	}
}
