package main

import (
	"regexp"
	"strings"
	"time"
)

func init() {
	registerProp(&PropSpec{ID: "C18", Title: "Tokens, errors and breakpoints carry the true source position", MinObls: 20,
		Classes:     regexp.MustCompile(`^(pre|post|inv|dec|assert|finding|frame|safe:(index|slice))`),
		TrustedBase: []string{"positions defined by the recursive functions nlCount / lineStart over the bytes of the input (axioms positions-start / positions-step)", "strings as opaque sequences of bytes (sat / ssub with the substring axiom)"},
		Assumptions: []string{"utf8.DecodeRuneInString: a rune is a line feed iff its first byte is, ASCII bytes are one byte wide, continuation bytes are >= 128 (extern contract)", "unicode.IsSpace(line feed)"},
		NotDecided:  []string{"that parser errors, runtime errors and breakpoints copy the token position unchanged (they read Lline / Lpos of the token; by inspection)", "statement separation from token lines (parser)"}})
}

const c18ReplaySrc = `package parser

import (
	"fmt"
	"strings"
	"testing"
)

func TestVerifReplay(t *testing.T) {
	inputs := []string{
		"a # c\n  b",
		"a /* c\n d */ b\n  e",
		"x := r'l1\nl2' y\n  z",
		"a\n\n   b # t\n c\n    d",
		"\"s\" # c\n\tq",
	}
	bad := 0
	for _, in := range inputs {
		for _, tok := range LexToList("replay", in) {
			if tok.ID == TokenEOF || tok.ID == TokenError {
				continue
			}
			line := 1 + strings.Count(in[:tok.Pos], "\n")
			col := tok.Pos - (strings.LastIndex(in[:tok.Pos], "\n") + 1) + 1
			if tok.Lline != line || tok.Lpos != col {
				bad++
				fmt.Printf("REPLAY-MISMATCH input %q token %q at byte %d: reported line %d column %d, true line %d column %d\n", in, tok.Val, tok.Pos, tok.Lline, tok.Lpos, line, col)
			}
		}
	}
	fmt.Printf("REPLAY-MISMATCHES %d\nREPLAY-DONE\n", bad)
}
`

var c18ReplayCache string

// c18Replay: a battery of inputs with line comments, block comments and multi-line raw strings is lexed by
// the real lexer; every token's reported line / column is compared with the position computed from its
// byte offset.
func c18Replay(c *Checker, o *Obl) map[string]interface{} {
	if c18ReplayCache == "" {
		run := runOverlayTestFlags(c.W.Repo, "parser", c18ReplaySrc, c.Dir, 60*time.Second, "")
		c18ReplayCache = run.Out + " "
	}
	rp := map[string]interface{}{"confirmed": false, "replay": "parser: LexToList on inputs with comments and multi-line strings; reported line/column compared with the position of the token's byte offset", "replay_output": truncate(c18ReplayCache, 2500)}
	if strings.Contains(c18ReplayCache, "REPLAY-MISMATCH ") {
		rp["confirmed"] = true
		rp["outcome"] = lineOf(c18ReplayCache, "REPLAY-MISMATCH ")
	} else if strings.Contains(c18ReplayCache, "REPLAY-DONE") {
		rp["outcome"] = "all reported positions are the true ones on the replay inputs"
	}
	return rp
}

func init() { propSpecs["C18"].Replay = c18Replay }
