package main

// Discipline obligations (locks, ownership, global frame) hook into the encoder here.

import (
	"golang.org/x/tools/go/ssa"
)

func (e *enc) storeHook(b *ssa.BasicBlock, i *ssa.Store, l loc, v string) {}

func (e *enc) mapWriteHook(b *ssa.BasicBlock, ins ssa.Instruction, m string) {}

func (e *enc) callHook(ins ssa.Instruction, key string, callee *ssa.Function, R string) {}

func (e *enc) returnHook(b *ssa.BasicBlock, r *ssa.Return, R string) {}
