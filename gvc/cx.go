package main

// Translation of contract expressions (cexpr.go) into SMT terms in a given state.

import (
	"fmt"
	"go/constant"
	"go/token"
	"go/types"
	"hash/fnv"
	"sort"
	"strconv"
	"strings"
)

type cval struct {
	s    string
	sort string
	t    types.Type
}

type cenv struct {
	e         *enc
	vars      map[string]cval
	lookup    func(string) (cval, bool)
	st        hstate
	old       hstate
	pkg       string
	depth     int
	atEntry   func() *cenv      // environment of the enclosing loop's entry edge (for atentry())
	nextEnv   func() *cenv      // environment at the end of the iteration (for next() in step clauses)
	loopEnvOf func(n int) *cenv // header environment of loop n (for loopval())
}

func (e *enc) newEnv() *cenv {
	pkg := ""
	if e.f != nil && e.f.Pkg != nil {
		pkg = e.f.Pkg.Pkg.Name()
	}
	return &cenv{e: e, vars: map[string]cval{}, st: e.heap, old: e.entry, pkg: pkg}
}

func (c *cenv) child() *cenv {
	n := *c
	n.vars = map[string]cval{}
	for k, v := range c.vars {
		n.vars[k] = v
	}
	return &n
}

// withBound: quantifier-bound variables stay visible inside next(...), loopval(...)
func (c *cenv) withBound(n *cenv) *cenv {
	var ch *cenv
	for k, v := range c.vars {
		if v.s == "q_"+k {
			if ch == nil {
				ch = n.child()
			}
			ch.vars[k] = v
		}
	}
	if ch == nil {
		return n
	}
	return ch
}

func (c *cenv) boolTerm(ex CExpr) (string, error) {
	v, err := c.term(ex)
	if err != nil {
		return "", err
	}
	if v.sort != "Bool" {
		return "", fmt.Errorf("expression %s is %s, not Bool", ex, v.sort)
	}
	return v.s, nil
}

func (c *cenv) sortOfTypeName(tn string) (string, types.Type, error) {
	switch tn {
	case "int", "uint64", "int64", "uint", "byte", "rune":
		return "ISort", types.Universe.Lookup(tn).Type(), nil
	case "mathint":
		return "Int", nil, nil
	case "string":
		return "Str", types.Typ[types.String], nil
	case "bool":
		return "Bool", types.Typ[types.Bool], nil
	case "any":
		return "Iface", types.NewInterfaceType(nil, nil), nil
	case "ref":
		return "Ref", nil, nil
	case "f64", "float64":
		return "F64", types.Typ[types.Float64], nil
	case "slice":
		return "Slice", nil, nil
	}
	t, err := c.e.w.resolveType(c.pkg, tn)
	if err != nil {
		return "", nil, err
	}
	return c.e.sortOf(t), t, nil
}

func findField(t types.Type, name string) ([]int, bool) {
	type item struct {
		t    types.Type
		path []int
	}
	queue := []item{{t, nil}}
	seen := map[types.Type]bool{}
	for len(queue) > 0 {
		it := queue[0]
		queue = queue[1:]
		tt := it.t
		if p, ok := tt.Underlying().(*types.Pointer); ok {
			tt = p.Elem()
		}
		st, ok := tt.Underlying().(*types.Struct)
		if !ok || seen[tt] {
			continue
		}
		seen[tt] = true
		for i := 0; i < st.NumFields(); i++ {
			if st.Field(i).Name() == name {
				return append(append([]int{}, it.path...), i), true
			}
		}
		for i := 0; i < st.NumFields(); i++ {
			if st.Field(i).Embedded() {
				queue = append(queue, item{st.Field(i).Type(), append(append([]int{}, it.path...), i)})
			}
		}
	}
	return nil, false
}

func (c *cenv) selectField(x cval, name string) (cval, error) {
	e := c.e
	if x.t == nil {
		return cval{}, fmt.Errorf("cannot select .%s: untyped value", name)
	}
	path, ok := findField(x.t, name)
	if !ok {
		return cval{}, fmt.Errorf("type %s has no field %s", x.t, name)
	}
	cur := x
	for _, idx := range path {
		switch u := cur.t.Underlying().(type) {
		case *types.Pointer:
			st, ok := u.Elem().Underlying().(*types.Struct)
			if !ok {
				return cval{}, fmt.Errorf("not a struct pointer: %s", cur.t)
			}
			l := e.structFieldLoc(cur.s, u.Elem(), st, idx)
			switch l.kind {
			case "field":
				cur = cval{e.loadIn(l, c.st), l.sort, l.t}
				if l.sort == "Ref" {
					e.assume(e.allocatedIn(cur.s, l.arr, c.st, l.ref))
				}
				if l.sort == "Iface" {
					e.assume(fmt.Sprintf("(=> (is-IPtr %s) %s)", cur.s, e.allocatedIn("(iptr "+cur.s+")", l.arr, c.st, l.ref)))
				}
			case "struct":
				cur = cval{l.ref, "Ref", types.NewPointer(l.t)}
			default:
				return cval{}, fmt.Errorf("unsupported field kind %s", l.kind)
			}
		case *types.Struct:
			cur = cval{e.fldGet(cur.t, idx, cur.s), e.sortOf(u.Field(idx).Type()), u.Field(idx).Type()}
		default:
			return cval{}, fmt.Errorf("cannot select through %s", cur.t)
		}
	}
	return cur, nil
}

func (c *cenv) intLit(s string) (string, error) {
	v, err := strconv.ParseUint(s, 0, 64)
	if err != nil {
		return "", err
	}
	return c.e.ulit(v), nil
}

func (c *cenv) constCval(cn *types.Const) (cval, error) {
	e := c.e
	switch cn.Val().Kind() {
	case constant.Int:
		if e.sortOf(cn.Type()) == "F64" {
			f, _ := constant.Float64Val(cn.Val())
			return cval{f64bits(f), "F64", cn.Type()}, nil
		}
		if i, ok := constant.Int64Val(cn.Val()); ok {
			return cval{e.ilit(i), "ISort", cn.Type()}, nil
		}
		if u, ok := constant.Uint64Val(cn.Val()); ok {
			return cval{e.ulit(u), "ISort", cn.Type()}, nil
		}
	case constant.String:
		return cval{e.strLit(constant.StringVal(cn.Val())), "Str", cn.Type()}, nil
	case constant.Bool:
		return cval{fmt.Sprint(constant.BoolVal(cn.Val())), "Bool", cn.Type()}, nil
	case constant.Float:
		f, _ := constant.Float64Val(cn.Val())
		return cval{f64bits(f), "F64", cn.Type()}, nil
	}
	return cval{}, fmt.Errorf("unsupported constant %s", cn.Name())
}

func (c *cenv) ident(name string) (cval, error) {
	if v, ok := c.vars[name]; ok {
		return v, nil
	}
	if c.lookup != nil {
		if v, ok := c.lookup(name); ok {
			return v, nil
		}
	}
	if p := c.e.w.TPkgs[c.pkg]; p != nil {
		if o := p.Scope().Lookup(name); o != nil {
			return c.pkgObject(o)
		}
	}
	return cval{}, fmt.Errorf("unresolved name %q", name)
}

func (c *cenv) pkgObject(o types.Object) (cval, error) {
	switch x := o.(type) {
	case *types.Const:
		return c.constCval(x)
	case *types.Func:
		// a declared function used as a value
		if x.Pkg() != nil {
			return cval{c.e.fnConst(x.Pkg().Name() + "." + x.Name()), "Ref", x.Type()}, nil
		}
	case *types.Var:
		// package-level variable: its cell
		e := c.e
		n := "g_" + sname(x.Pkg().Name()+"_"+x.Name())
		e.decl(n, "Ref")
		l := e.cellLoc(n, x.Type())
		if l.kind == "struct" {
			return cval{n, "Ref", types.NewPointer(x.Type())}, nil
		}
		l.arr = "Glob_" + sname(x.Pkg().Name()+"."+x.Name())
		return cval{e.loadIn(l, c.st), l.sort, x.Type()}, nil
	}
	return cval{}, fmt.Errorf("unsupported package object %s", o.Name())
}

func (c *cenv) adapt(a, b cval) (cval, cval) {
	e := c.e
	fix := func(n cval, other cval) cval {
		if n.sort != "Nil" {
			return n
		}
		switch other.sort {
		case "Ref":
			return cval{"0", "Ref", other.t}
		case "Iface":
			return cval{"INil", "Iface", other.t}
		case "Slice":
			return cval{e.zero("Slice"), "Slice", other.t}
		}
		return n
	}
	a, b = fix(a, b), fix(b, a)
	if a.sort == "Iface" && b.sort != "Iface" && b.t != nil {
		b = cval{e.mkIface(b.s, b.t), "Iface", a.t}
	}
	if b.sort == "Iface" && a.sort != "Iface" && a.t != nil {
		a = cval{e.mkIface(a.s, a.t), "Iface", b.t}
	}
	if a.sort == "Int" && b.sort == "ISort" && !e.bv {
		a.sort = "ISort"
	}
	if b.sort == "Int" && a.sort == "ISort" && !e.bv {
		b.sort = "ISort"
	}
	return a, b
}

func (c *cenv) term(ex CExpr) (cval, error) {
	e := c.e
	switch x := ex.(type) {
	case *CLit:
		switch x.Kind {
		case "int":
			s, err := c.intLit(x.Val)
			return cval{s, "ISort", types.Typ[types.Int]}, err
		case "string":
			return cval{e.strLit(x.Val), "Str", types.Typ[types.String]}, nil
		case "bool":
			return cval{x.Val, "Bool", types.Typ[types.Bool]}, nil
		case "nil":
			return cval{"nil", "Nil", nil}, nil
		}
	case *CIdent:
		return c.ident(x.Name)
	case *CSel:
		if id, ok := x.X.(*CIdent); ok {
			if id.Name == "result" {
				if v, ok := c.vars["result."+x.Sel]; ok {
					return v, nil
				}
			}
			if _, isVar := c.vars[id.Name]; !isVar {
				var found bool
				if c.lookup != nil {
					_, found = c.lookup(id.Name)
				}
				if p := e.w.TPkgs[id.Name]; !found && p != nil {
					if o := p.Scope().Lookup(x.Sel); o != nil {
						return c.pkgObject(o)
					}
				}
			}
		}
		b, err := c.term(x.X)
		if err != nil {
			return cval{}, err
		}
		return c.selectField(b, x.Sel)
	case *CIndex:
		b, err := c.term(x.X)
		if err != nil {
			return cval{}, err
		}
		i, err := c.term(x.I)
		if err != nil {
			return cval{}, err
		}
		return c.index(b, i)
	case *CSlice:
		b, err := c.term(x.X)
		if err != nil {
			return cval{}, err
		}
		lo := cval{e.ilit(0), "ISort", nil}
		if x.Lo != nil {
			if lo, err = c.term(x.Lo); err != nil {
				return cval{}, err
			}
		}
		var hi cval
		if x.Hi != nil {
			if hi, err = c.term(x.Hi); err != nil {
				return cval{}, err
			}
		}
		switch b.sort {
		case "Str":
			if x.Hi == nil {
				hi = cval{e.slenI(b.s), "ISort", nil}
			}
			if e.strTheory {
				return cval{fmt.Sprintf("(str.substr %s %s %s)", b.s, e.toInt(lo.s), e.toInt(e.isub(hi.s, lo.s))), "Str", b.t}, nil
			}
			return cval{fmt.Sprintf("(ssub %s %s %s)", b.s, e.toInt(lo.s), e.toInt(hi.s)), "Str", b.t}, nil
		case "Slice":
			if x.Hi == nil {
				hi = cval{"(len " + b.s + ")", "ISort", nil}
			}
			return cval{fmt.Sprintf("(mkSlice (arr %s) %s %s %s)", b.s, e.iadd("(off "+b.s+")", lo.s), e.isub(hi.s, lo.s), e.isub("(cap "+b.s+")", lo.s)), "Slice", b.t}, nil
		}
		return cval{}, fmt.Errorf("cannot slice %s", b.sort)
	case *CUnary:
		v, err := c.term(x.X)
		if err != nil {
			return cval{}, err
		}
		switch x.Op {
		case "!":
			if v.sort != "Bool" {
				return cval{}, fmt.Errorf("! on %s", v.sort)
			}
			return cval{"(not " + v.s + ")", "Bool", v.t}, nil
		case "-":
			if e.bv && v.sort == "ISort" {
				return cval{"(bvneg " + v.s + ")", v.sort, v.t}, nil
			}
			return cval{"(- " + v.s + ")", v.sort, v.t}, nil
		case "^":
			if e.bv {
				return cval{"(bvnot " + v.s + ")", v.sort, v.t}, nil
			}
			return cval{"(- (- " + v.s + ") 1)", v.sort, v.t}, nil
		case "*":
			// *p for a pointer to a non-struct value: the cell it points to, in the state of the clause
			if v.sort == "Ref" && v.t != nil {
				if pt, ok := v.t.Underlying().(*types.Pointer); ok {
					if _, isStruct := pt.Elem().Underlying().(*types.Struct); !isStruct {
						l := e.cellLoc(v.s, pt.Elem())
						return cval{e.loadIn(l, c.st), l.sort, pt.Elem()}, nil
					}
				}
			}
			return cval{}, fmt.Errorf("* on %s", v.sort)
		}
	case *CBinary:
		return c.binary(x)
	case *CQuant:
		ch := c.child()
		var binds []string
		for _, v := range x.Vars {
			s, t, err := c.sortOfTypeName(v[1])
			if err != nil {
				return cval{}, err
			}
			n := "q_" + v[0]
			ch.vars[v[0]] = cval{n, s, t}
			binds = append(binds, fmt.Sprintf("(%s %s)", n, e.smtSort(s)))
		}
		nBefore := len(e.asserts)
		body, err := ch.boolTerm(x.Body)
		if err != nil {
			return cval{}, err
		}
		// side facts produced while translating the body (allocation facts of loaded values ...) which
		// mention a bound variable cannot stand as assertions of their own: drop them
		if len(e.asserts) > nBefore {
			kept := e.asserts[:nBefore:nBefore]
			for _, a := range e.asserts[nBefore:] {
				bad := false
				for _, v := range x.Vars {
					if containsToken(a, "q_"+v[0]) {
						bad = true
					}
				}
				if !bad {
					kept = append(kept, a)
				}
			}
			e.asserts = kept
		}
		q := "exists"
		if x.Forall {
			q = "forall"
		}
		if len(x.Triggers) > 0 {
			nB := len(e.asserts)
			pats := ""
			for _, g := range x.Triggers {
				var ts []string
				for _, tx := range g {
					tv, err := ch.term(tx)
					if err != nil {
						return cval{}, fmt.Errorf("trigger %s: %v", tx, err)
					}
					ts = append(ts, tv.s)
				}
				pats += " :pattern (" + strings.Join(ts, " ") + ")"
			}
			e.asserts = e.asserts[:nB:nB] // side facts of pattern terms are not wanted
			return cval{fmt.Sprintf("(%s (%s) (! %s%s))", q, strings.Join(binds, " "), body, pats), "Bool", nil}, nil
		}
		return cval{fmt.Sprintf("(%s (%s) %s)", q, strings.Join(binds, " "), body), "Bool", nil}, nil
	case *CCall:
		return c.call(x)
	}
	return cval{}, fmt.Errorf("unsupported expression %s", ex)
}

func (c *cenv) index(b, i cval) (cval, error) {
	e := c.e
	switch b.sort {
	case "Slice":
		var el types.Type
		if b.t != nil {
			if st, ok := b.t.Underlying().(*types.Slice); ok {
				el = st.Elem()
			}
		}
		if el == nil {
			return cval{}, fmt.Errorf("index of untyped slice")
		}
		if _, isStruct := el.Underlying().(*types.Struct); isStruct {
			return cval{fmt.Sprintf("(elemobj (arr %s) %s)", b.s, e.toInt(e.iadd("(off "+b.s+")", i.s))), "Ref", types.NewPointer(el)}, nil
		}
		l := loc{kind: "elem", arr: "Elems_" + sname(types.TypeString(el, qualName)), ref: "(arr " + b.s + ")", idx: e.iadd("(off "+b.s+")", i.s), sort: e.sortOf(el), t: el}
		return cval{e.loadIn(l, c.st), l.sort, el}, nil
	case "Str":
		return cval{e.strAt(b.s, i.s), "ISort", types.Typ[types.Uint8]}, nil
	case "Ref":
		if b.t != nil {
			if mt, ok := b.t.Underlying().(*types.Map); ok {
				ks, vs := e.sortOf(mt.Key()), e.sortOf(mt.Elem())
				if !mapSupported(ks, vs) {
					return cval{}, fmt.Errorf("unsupported map type %s", b.t)
				}
				if ks == "Iface" && i.sort != "Iface" && i.t != nil {
					i = cval{e.mkIface(i.s, i.t), "Iface", mt.Key()}
				}
				_, valA := e.mapArrs(ks, vs)
				return cval{fmt.Sprintf("(select (select %s %s) %s)", e.hnameIn(valA, c.st), b.s, i.s), vs, mt.Elem()}, nil
			}
		}
	}
	if strings.HasPrefix(b.sort, "(Array") {
		// logical array from smt()/uninterp
		parts := splitSort(b.sort)
		if len(parts) == 2 {
			return cval{fmt.Sprintf("(select %s %s)", b.s, i.s), parts[1], nil}, nil
		}
	}
	return cval{}, fmt.Errorf("cannot index %s", b.sort)
}

// splitSort splits "(Array A B)" into [A, B].
func splitSort(s string) []string {
	s = strings.TrimSuffix(strings.TrimPrefix(s, "(Array "), ")")
	depth := 0
	for i := 0; i < len(s); i++ {
		switch s[i] {
		case '(':
			depth++
		case ')':
			depth--
		case ' ':
			if depth == 0 {
				return []string{s[:i], s[i+1:]}
			}
		}
	}
	return nil
}

func (c *cenv) binary(x *CBinary) (cval, error) {
	e := c.e
	a, err := c.term(x.X)
	if err != nil {
		return cval{}, err
	}
	b, err := c.term(x.Y)
	if err != nil {
		return cval{}, err
	}
	a, b = c.adapt(a, b)
	boolOp := func(op string) (cval, error) {
		if a.sort != "Bool" || b.sort != "Bool" {
			return cval{}, fmt.Errorf("%s on %s and %s in %s", x.Op, a.sort, b.sort, x)
		}
		return cval{fmt.Sprintf("(%s %s %s)", op, a.s, b.s), "Bool", nil}, nil
	}
	uns := a.t != nil && isUnsigned(a.t)
	switch x.Op {
	case "&&":
		return boolOp("and")
	case "||":
		return boolOp("or")
	case "==>":
		return boolOp("=>")
	case "<==>":
		return boolOp("=")
	case "==", "!=":
		if a.sort != b.sort {
			return cval{}, fmt.Errorf("comparison of %s and %s in %s", a.sort, b.sort, x)
		}
		t := fmt.Sprintf("(= %s %s)", a.s, b.s)
		if x.Op == "!=" {
			t = "(not " + t + ")"
		}
		return cval{t, "Bool", nil}, nil
	case "<", "<=", ">", ">=":
		op := map[string]token.Token{"<": token.LSS, "<=": token.LEQ, ">": token.GTR, ">=": token.GEQ}[x.Op]
		if a.sort == "Int" || b.sort == "Int" {
			return cval{fmt.Sprintf("(%s %s %s)", x.Op, a.s, b.s), "Bool", nil}, nil
		}
		if a.sort == "Str" && b.sort == "Str" && e.strTheory {
			// lexical (byte-wise) order of strings
			f := map[string]string{"<": "(str.< %s %s)", "<=": "(str.<= %s %s)", ">": "(str.< %[2]s %[1]s)", ">=": "(str.<= %[2]s %[1]s)"}[x.Op]
			return cval{fmt.Sprintf(f, a.s, b.s), "Bool", nil}, nil
		}
		if a.sort != "ISort" || b.sort != "ISort" {
			return cval{}, fmt.Errorf("ordering of %s and %s in %s", a.sort, b.sort, x)
		}
		return cval{e.icmp(op, a.s, b.s, uns), "Bool", nil}, nil
	case "++":
		if a.sort == "Str" && b.sort == "Str" {
			if e.strTheory {
				return cval{fmt.Sprintf("(str.++ %s %s)", a.s, b.s), "Str", a.t}, nil
			}
			return cval{fmt.Sprintf("(sconcat %s %s)", a.s, b.s), "Str", a.t}, nil
		}
		return cval{}, fmt.Errorf("++ on %s", a.sort)
	}
	if a.sort == "Int" && b.sort == "Int" {
		op := map[string]string{"+": "+", "-": "-", "*": "*", "/": "div", "%": "mod"}[x.Op]
		if op == "" {
			return cval{}, fmt.Errorf("operator %s on mathematical integers", x.Op)
		}
		return cval{fmt.Sprintf("(%s %s %s)", op, a.s, b.s), "Int", nil}, nil
	}
	if a.sort != "ISort" || b.sort != "ISort" {
		return cval{}, fmt.Errorf("operator %s on %s and %s in %s", x.Op, a.sort, b.sort, x)
	}
	tok := map[string]token.Token{"+": token.ADD, "-": token.SUB, "*": token.MUL, "/": token.QUO, "%": token.REM, "&": token.AND, "|": token.OR,
		"^": token.XOR, "&^": token.AND_NOT, "<<": token.SHL, ">>": token.SHR}[x.Op]
	t := e.iop(tok, a.s, b.s, uns)
	if t == "" {
		return cval{}, fmt.Errorf("operator %s unsupported", x.Op)
	}
	rt := a.t
	if rt == nil {
		rt = b.t
	}
	return cval{t, "ISort", rt}, nil
}

func (c *cenv) args(x *CCall, n int) ([]cval, error) {
	if n >= 0 && len(x.Args) != n {
		return nil, fmt.Errorf("%s expects %d arguments", x.Fn, n)
	}
	var r []cval
	for _, a := range x.Args {
		v, err := c.term(a)
		if err != nil {
			return nil, err
		}
		r = append(r, v)
	}
	return r, nil
}

var ifaceListT = types.NewSlice(types.NewInterfaceType(nil, nil))
var ifaceMapT = types.NewMap(types.NewInterfaceType(nil, nil), types.NewInterfaceType(nil, nil))

func (c *cenv) call(x *CCall) (cval, error) {
	e := c.e
	switch x.Fn {
	case "old":
		if len(x.Args) != 1 {
			return cval{}, fmt.Errorf("old expects 1 argument")
		}
		ch := c.child()
		ch.st = c.old
		// parameters keep their entry values in old()
		for k, v := range c.vars {
			if strings.HasPrefix(k, "old_") {
				ch.vars[strings.TrimPrefix(k, "old_")] = v
			}
		}
		return ch.term(x.Args[0])
	case "atentry":
		if len(x.Args) != 1 || c.atEntry == nil {
			return cval{}, fmt.Errorf("atentry(e) is only available in loop clauses")
		}
		return c.atEntry().term(x.Args[0])
	case "next":
		if len(x.Args) != 1 || c.nextEnv == nil {
			return cval{}, fmt.Errorf("next(e) is only available in loop step clauses")
		}
		return c.withBound(c.nextEnv()).term(x.Args[0])
	case "loopval":
		if len(x.Args) != 2 || c.loopEnvOf == nil {
			return cval{}, fmt.Errorf("loopval(n, e) is only available in ensures clauses")
		}
		lit, ok := x.Args[0].(*CLit)
		if !ok || lit.Kind != "int" {
			return cval{}, fmt.Errorf("loopval: first argument must be a loop ordinal")
		}
		n, _ := strconv.Atoi(lit.Val)
		le := c.loopEnvOf(n)
		if le == nil {
			return cval{}, fmt.Errorf("loopval: no loop %d", n)
		}
		return c.withBound(le).term(x.Args[1])
	case "ite":
		a, err := c.args(x, 3)
		if err != nil {
			return cval{}, err
		}
		a[1], a[2] = c.adapt(a[1], a[2])
		return cval{fmt.Sprintf("(ite %s %s %s)", a[0].s, a[1].s, a[2].s), a[1].sort, a[1].t}, nil
	case "len":
		a, err := c.args(x, 1)
		if err != nil {
			return cval{}, err
		}
		switch a[0].sort {
		case "Slice":
			// lengths are not negative (a typing fact: it goes with the clause, see entryGoal)
			e.assume(e.ige0("(len " + a[0].s + ")"))
			return cval{"(len " + a[0].s + ")", "ISort", types.Typ[types.Int]}, nil
		case "Str":
			return cval{e.slenI(a[0].s), "ISort", types.Typ[types.Int]}, nil
		case "Ref":
			e.harr("MapLen", "(Array Ref "+e.isort()+")")
			t := fmt.Sprintf("(ite (= %s 0) %s (select %s %s))", a[0].s, e.ilit(0), e.hnameIn("MapLen", c.st), a[0].s)
			e.assume(e.ige0(t))
			return cval{t, "ISort", types.Typ[types.Int]}, nil
		}
		return cval{}, fmt.Errorf("len of %s", a[0].sort)
	case "cap":
		a, err := c.args(x, 1)
		if err != nil {
			return cval{}, err
		}
		return cval{"(cap " + a[0].s + ")", "ISort", types.Typ[types.Int]}, nil
	case "has":
		a, err := c.args(x, 2)
		if err != nil {
			return cval{}, err
		}
		if a[0].t != nil {
			if mt, ok := a[0].t.Underlying().(*types.Map); ok {
				ks, vs := e.sortOf(mt.Key()), e.sortOf(mt.Elem())
				if !mapSupported(ks, vs) {
					return cval{}, fmt.Errorf("unsupported map type")
				}
				k := a[1]
				if ks == "Iface" && k.sort != "Iface" && k.t != nil {
					k = cval{e.mkIface(k.s, k.t), "Iface", nil}
				}
				hasA, _ := e.mapArrs(ks, vs)
				return cval{fmt.Sprintf("(and (not (= %s 0)) (select (select %s %s) %s))", a[0].s, e.hnameIn(hasA, c.st), a[0].s, k.s), "Bool", nil}, nil
			}
		}
		return cval{}, fmt.Errorf("has() on non-map")
	case "isNil":
		a, err := c.args(x, 1)
		if err != nil {
			return cval{}, err
		}
		switch a[0].sort {
		case "Iface":
			return cval{"(= " + a[0].s + " INil)", "Bool", nil}, nil
		case "Ref":
			return cval{"(= " + a[0].s + " 0)", "Bool", nil}, nil
		}
		return cval{}, fmt.Errorf("isNil on %s", a[0].sort)
	case "isNum", "isStr", "isBool", "isList", "isMap", "isFunc":
		a, err := c.args(x, 1)
		if err != nil {
			return cval{}, err
		}
		v := a[0].s
		switch x.Fn {
		case "isNum":
			return cval{"(is-IF64 " + v + ")", "Bool", nil}, nil
		case "isStr":
			return cval{"(is-IStr " + v + ")", "Bool", nil}, nil
		case "isBool":
			return cval{"(is-IBool " + v + ")", "Bool", nil}, nil
		case "isList":
			return cval{e.typeTest(v, ifaceListT), "Bool", nil}, nil
		case "isMap":
			return cval{e.typeTest(v, ifaceMapT), "Bool", nil}, nil
		}
	case "num", "str", "boolv", "list", "mapv", "ptr":
		a, err := c.args(x, 1)
		if err != nil {
			return cval{}, err
		}
		v := a[0].s
		switch x.Fn {
		case "num":
			return cval{"(f64 " + v + ")", "F64", types.Typ[types.Float64]}, nil
		case "str":
			return cval{"(istr " + v + ")", "Str", types.Typ[types.String]}, nil
		case "boolv":
			return cval{"(ibool " + v + ")", "Bool", types.Typ[types.Bool]}, nil
		case "list":
			return cval{"(isl " + v + ")", "Slice", ifaceListT}, nil
		case "mapv":
			return cval{"(imap " + v + ")", "Ref", ifaceMapT}, nil
		case "ptr":
			return cval{"(iptr " + v + ")", "Ref", nil}, nil
		}
	case "box":
		a, err := c.args(x, 1)
		if err != nil {
			return cval{}, err
		}
		if a[0].sort == "FP" {
			// a float64 value given as a floating-point term: the interface value holding that number
			// (integers and finite values have one bit pattern)
			n := e.newName("boxnum")
			e.decl(n, "F64")
			e.assume(fmt.Sprintf("(= (toFP %s) %s)", n, a[0].s))
			return cval{"(IF64 " + n + ")", "Iface", types.NewInterfaceType(nil, nil)}, nil
		}
		if a[0].t == nil {
			return cval{}, fmt.Errorf("box of untyped value")
		}
		return cval{e.mkIface(a[0].s, a[0].t), "Iface", types.NewInterfaceType(nil, nil)}, nil
	case "typeIs", "as":
		if len(x.Args) != 2 {
			return cval{}, fmt.Errorf("%s expects (value, \"type\")", x.Fn)
		}
		v, err := c.term(x.Args[0])
		if err != nil {
			return cval{}, err
		}
		lit, ok := x.Args[1].(*CLit)
		if !ok || lit.Kind != "string" {
			return cval{}, fmt.Errorf("%s: second argument must be a type string", x.Fn)
		}
		t, err := e.w.resolveType(c.pkg, lit.Val)
		if err != nil {
			return cval{}, err
		}
		if x.Fn == "typeIs" {
			return cval{e.typeTest(v.s, t), "Bool", nil}, nil
		}
		return cval{e.payload(v.s, t), e.sortOf(t), t}, nil
	case "hashable":
		a, err := c.args(x, 1)
		if err != nil {
			return cval{}, err
		}
		return cval{"(not (uncomparable " + a[0].s + "))", "Bool", nil}, nil
	case "goEq":
		a, err := c.args(x, 2)
		if err != nil {
			return cval{}, err
		}
		return cval{fmt.Sprintf("(ifaceEq %s %s)", a[0].s, a[1].s), "Bool", nil}, nil
	case "fadd", "fsub", "fmul", "fdiv":
		a, err := c.args(x, 2)
		if err != nil {
			return cval{}, err
		}
		op := map[string]string{"fadd": "fp.add", "fsub": "fp.sub", "fmul": "fp.mul", "fdiv": "fp.div"}[x.Fn]
		return cval{fmt.Sprintf("(%s RNE (toFP %s) (toFP %s))", op, a[0].s, a[1].s), "FP", nil}, nil
	case "ffloor":
		a, err := c.args(x, 1)
		if err != nil {
			return cval{}, err
		}
		return cval{fmt.Sprintf("(fp.roundToIntegral RTN %s)", c.fp(a[0])), "FP", nil}, nil
	case "fneg":
		a, err := c.args(x, 1)
		if err != nil {
			return cval{}, err
		}
		return cval{fmt.Sprintf("(fp.neg %s)", c.fp(a[0])), "FP", nil}, nil
	case "feq", "flt", "fle", "fgt", "fge":
		a, err := c.args(x, 2)
		if err != nil {
			return cval{}, err
		}
		op := map[string]string{"feq": "fp.eq", "flt": "fp.lt", "fle": "fp.leq", "fgt": "fp.gt", "fge": "fp.geq"}[x.Fn]
		return cval{fmt.Sprintf("(%s %s %s)", op, c.fp(a[0]), c.fp(a[1])), "Bool", nil}, nil
	case "fsame":
		// same IEEE value (bit pattern up to NaN payload): both NaN or equal with equal sign
		a, err := c.args(x, 2)
		if err != nil {
			return cval{}, err
		}
		return cval{fmt.Sprintf("(= %s %s)", c.fp(a[0]), c.fp(a[1])), "Bool", nil}, nil
	case "isNaN":
		a, err := c.args(x, 1)
		if err != nil {
			return cval{}, err
		}
		return cval{fmt.Sprintf("(fp.isNaN %s)", c.fp(a[0])), "Bool", nil}, nil
	case "f32":
		// rounding to float32 (the value, as a float64)
		a, err := c.args(x, 1)
		if err != nil {
			return cval{}, err
		}
		return cval{fmt.Sprintf("((_ to_fp 11 53) RNE ((_ to_fp 8 24) RNE %s))", c.fp(a[0])), "FP", nil}, nil
	case "i2f":
		a, err := c.args(x, 1)
		if err != nil {
			return cval{}, err
		}
		if e.bv {
			return cval{fmt.Sprintf("((_ to_fp 11 53) RNE %s)", a[0].s), "FP", nil}, nil
		}
		return cval{fmt.Sprintf("((_ to_fp 11 53) RNE (to_real %s))", a[0].s), "FP", nil}, nil
	case "u2f":
		a, err := c.args(x, 1)
		if err != nil {
			return cval{}, err
		}
		if !e.bv {
			return cval{}, fmt.Errorf("u2f needs ints bv64")
		}
		return cval{fmt.Sprintf("((_ to_fp_unsigned 11 53) RNE %s)", a[0].s), "FP", nil}, nil
	case "arrayOf":
		// arrayOf(s): the backing array of a slice (a reference: fresh(arrayOf(s)) says the slice was made here)
		a, err := c.args(x, 1)
		if err != nil {
			return cval{}, err
		}
		if a[0].sort != "Slice" {
			return cval{}, fmt.Errorf("arrayOf of %s", a[0].sort)
		}
		return cval{"(arr " + a[0].s + ")", "Ref", nil}, nil
	case "toInt":
		// toInt(x): the Go conversion int(x) of a float64 - the same function symbol the encoding of the
		// conversion instruction uses (a function of its operand in every integer mode)
		a, err := c.args(x, 1)
		if err != nil {
			return cval{}, err
		}
		if a[0].sort != "F64" {
			return cval{}, fmt.Errorf("toInt of %s", a[0].sort)
		}
		fn := "f2i_int"
		if !e.declared[fn] {
			e.declared[fn] = true
			e.decls = append(e.decls, fmt.Sprintf("(declare-fun %s (%s) %s)", fn, e.smtSort("F64"), e.isort()))
		}
		return cval{fmt.Sprintf("(%s %s)", fn, a[0].s), "ISort", types.Typ[types.Int]}, nil
	case "f2i":
		a, err := c.args(x, 1)
		if err != nil {
			return cval{}, err
		}
		if !e.bv {
			return cval{}, fmt.Errorf("f2i needs ints bv64")
		}
		return cval{fmt.Sprintf("((_ fp.to_sbv 64) RTZ %s)", c.fp(a[0])), "ISort", types.Typ[types.Int64]}, nil
	case "f2u":
		a, err := c.args(x, 1)
		if err != nil {
			return cval{}, err
		}
		if !e.bv {
			return cval{}, fmt.Errorf("f2u needs ints bv64")
		}
		return cval{fmt.Sprintf("((_ fp.to_ubv 64) RTZ %s)", c.fp(a[0])), "ISort", types.Typ[types.Uint64]}, nil
	case "ftruncIn":
		// ftruncIn(x, "lo", "hi"): lo < x < hi (the bounds are decimal literals; x truncates into (lo, hi))
		if len(x.Args) == 3 {
			l1, ok1 := x.Args[1].(*CLit)
			l2, ok2 := x.Args[2].(*CLit)
			if ok1 && ok2 {
				lo, err1 := strconv.ParseFloat(l1.Val, 64)
				hi, err2 := strconv.ParseFloat(l2.Val, 64)
				v, err3 := c.term(x.Args[0])
				if err1 == nil && err2 == nil && err3 == nil {
					return cval{fmt.Sprintf("(and (fp.lt (toFP %s) %s) (fp.lt %s (toFP %s)))", f64bits(lo), c.fp(v), c.fp(v), f64bits(hi)), "Bool", nil}, nil
				}
			}
		}
		return cval{}, fmt.Errorf("ftruncIn(x, \"lo\", \"hi\")")
	case "f64lit":
		if len(x.Args) == 1 {
			if l, ok := x.Args[0].(*CLit); ok {
				f, err := strconv.ParseFloat(l.Val, 64)
				if err == nil {
					return cval{f64bits(f), "F64", types.Typ[types.Float64]}, nil
				}
			}
		}
		return cval{}, fmt.Errorf("f64lit expects a literal")
	case "indexOf", "contains", "prefixOf", "suffixOf", "indexFrom", "lastIndexOf":
		a, err := c.args(x, -1)
		if err != nil {
			return cval{}, err
		}
		if !e.strTheory {
			// opaque strings: uninterpreted search functions with their range facts
			switch x.Fn {
			case "indexOf", "indexFrom":
				t := fmt.Sprintf("(sindexof %s %s)", a[0].s, a[1].s)
				if x.Fn == "indexFrom" {
					t = fmt.Sprintf("(sindexfrom %s %s %s)", a[0].s, a[1].s, e.toInt(a[2].s))
				}
				e.assume(fmt.Sprintf("(and (>= %s (- 1)) (<= (+ %s (slen %s)) (slen %s)))", t, t, a[1].s, a[0].s))
				return cval{e.fromInt(t), "ISort", types.Typ[types.Int]}, nil
			case "contains":
				t := fmt.Sprintf("(sindexof %s %s)", a[0].s, a[1].s)
				e.assume(fmt.Sprintf("(and (>= %s (- 1)) (<= (+ %s (slen %s)) (slen %s)))", t, t, a[1].s, a[0].s))
				return cval{fmt.Sprintf("(>= %s 0)", t), "Bool", nil}, nil
			case "prefixOf":
				t := fmt.Sprintf("(sprefixof %s %s)", a[0].s, a[1].s)
				e.assume(fmt.Sprintf("(=> %s (<= (slen %s) (slen %s)))", t, a[0].s, a[1].s))
				return cval{t, "Bool", nil}, nil
			case "suffixOf":
				t := fmt.Sprintf("(ssuffixof %s %s)", a[0].s, a[1].s)
				e.assume(fmt.Sprintf("(=> %s (<= (slen %s) (slen %s)))", t, a[0].s, a[1].s))
				return cval{t, "Bool", nil}, nil
			}
			return cval{}, fmt.Errorf("%s needs strings theory", x.Fn)
		}
		switch x.Fn {
		case "indexOf":
			return cval{e.fromInt(fmt.Sprintf("(str.indexof %s %s 0)", a[0].s, a[1].s)), "ISort", types.Typ[types.Int]}, nil
		case "indexFrom":
			return cval{e.fromInt(fmt.Sprintf("(str.indexof %s %s %s)", a[0].s, a[1].s, e.toInt(a[2].s))), "ISort", types.Typ[types.Int]}, nil
		case "contains":
			return cval{fmt.Sprintf("(str.contains %s %s)", a[0].s, a[1].s), "Bool", nil}, nil
		case "prefixOf":
			return cval{fmt.Sprintf("(str.prefixof %s %s)", a[0].s, a[1].s), "Bool", nil}, nil
		case "suffixOf":
			return cval{fmt.Sprintf("(str.suffixof %s %s)", a[0].s, a[1].s), "Bool", nil}, nil
		}
	case "param":
		// param(k): the k-th parameter of the function (0-based, receiver included), whatever it is called
		if len(x.Args) == 1 {
			if l, ok := x.Args[0].(*CLit); ok && l.Kind == "int" {
				k, _ := strconv.Atoi(l.Val)
				if k >= 0 && k < len(e.f.Params) {
					p := e.f.Params[k]
					return cval{e.val(p), e.sortOf(p.Type()), p.Type()}, nil
				}
			}
		}
		return cval{}, fmt.Errorf("param(k): k must be a literal index of a parameter")
	case "fresh":
		a, err := c.args(x, 1)
		if err != nil {
			return cval{}, err
		}
		return cval{fmt.Sprintf("(and (> %s 0) (>= (birth %s) %s))", a[0].s, a[0].s, e.now(c.old)), "Bool", nil}, nil
	case "held", "rheld":
		a, err := c.args(x, 1)
		if err != nil {
			return cval{}, err
		}
		arr := "G_" + x.Fn
		e.harr(arr, "(Array Ref Bool)")
		return cval{fmt.Sprintf("(select %s %s)", e.hnameIn(arr, c.st), a[0].s), "Bool", nil}, nil
	case "ncalls":
		// number of calls of the named function made so far by this activation
		if len(x.Args) != 1 {
			return cval{}, fmt.Errorf("ncalls(\"callee key\")")
		}
		lit, ok := x.Args[0].(*CLit)
		if !ok || lit.Kind != "string" {
			return cval{}, fmt.Errorf("ncalls: argument must be a string literal")
		}
		arr := "G_n:" + lit.Val
		if !e.countKeys[lit.Val] {
			return cval{}, fmt.Errorf("ncalls(%q): key not registered (engine error)", lit.Val)
		}
		e.harr(arr, "Int")
		return cval{e.hnameIn(arr, c.st), "Int", nil}, nil
	case "callresult":
		// callresult("key", k): result of the k-th call of the callee (meaningful where ncalls(key) >= k)
		if len(x.Args) != 2 && len(x.Args) != 3 {
			return cval{}, fmt.Errorf("callresult(\"key\", k [, component])")
		}
		lit, ok1 := x.Args[0].(*CLit)
		ord, ok2 := x.Args[1].(*CLit)
		if !ok1 || !ok2 || lit.Kind != "string" || ord.Kind != "int" {
			return cval{}, fmt.Errorf("callresult: (string literal, ordinal)")
		}
		k := lit.Val + "#" + ord.Val
		if len(x.Args) == 3 {
			// a component of a tuple result
			cl, ok := x.Args[2].(*CLit)
			if !ok || cl.Kind != "int" {
				return cval{}, fmt.Errorf("callresult: the component must be a literal")
			}
			k += "." + cl.Val
			if v, ok := e.callResults[k]; ok {
				return v, nil
			}
			if t, ok := e.callResultTypes[lit.Val]; ok {
				if tt, isTuple := t.(*types.Tuple); isTuple {
					ci, _ := strconv.Atoi(cl.Val)
					if ci < tt.Len() {
						n := "cr_" + sname(k)
						e.declValue(n, tt.At(ci).Type())
						return cval{n, e.sortOf(tt.At(ci).Type()), tt.At(ci).Type()}, nil
					}
				}
			}
			return cval{}, fmt.Errorf("callresult(%q, %s, %s): no such call result", lit.Val, ord.Val, cl.Val)
		}
		if v, ok := e.callResults[k]; ok {
			return v, nil
		}
		if t, ok := e.callResultTypes[lit.Val]; ok {
			n := "cr_" + sname(k)
			e.declValue(n, t)
			return cval{n, e.sortOf(t), t}, nil
		}
		return cval{}, fmt.Errorf("callresult(%q): the function does not call it", lit.Val)
	case "atlock":
		// atlock(k, e): e evaluated in the state right after the k-th lock acquisition of this function
		if len(x.Args) != 2 {
			return cval{}, fmt.Errorf("atlock(k, e)")
		}
		lit, ok := x.Args[0].(*CLit)
		if !ok || lit.Kind != "int" {
			return cval{}, fmt.Errorf("atlock: first argument must be an ordinal")
		}
		k, _ := strconv.Atoi(lit.Val)
		if k < 1 || k > len(e.lockStates) {
			return cval{}, fmt.Errorf("atlock(%d): the function has acquired %d locks at this point", k, len(e.lockStates))
		}
		ch := c.child()
		ch.st = e.lockStates[k-1]
		return ch.term(x.Args[1])
	case "heldset", "rheldset":
		arr := "G_held"
		if x.Fn == "rheldset" {
			arr = "G_rheld"
		}
		e.harr(arr, "(Array Ref Bool)")
		return cval{e.hnameIn(arr, c.st), "(Array Ref Bool)", nil}, nil
	case "addr":
		// addr(x.f): address of a by-value struct field (e.g. an embedded sync.Mutex)
		a, err := c.args(x, 1)
		if err != nil {
			return cval{}, err
		}
		return a[0], nil
	case "smt":
		// smt("Sort", "(template $1 $2)", args...)
		if len(x.Args) < 2 {
			return cval{}, fmt.Errorf("smt(sort, template, args...)")
		}
		so, ok1 := x.Args[0].(*CLit)
		tp, ok2 := x.Args[1].(*CLit)
		if !ok1 || !ok2 {
			return cval{}, fmt.Errorf("smt: sort and template must be string literals")
		}
		t := tp.Val
		for i := len(x.Args) - 1; i >= 2; i-- {
			v, err := c.term(x.Args[i])
			if err != nil {
				return cval{}, err
			}
			t = strings.ReplaceAll(t, fmt.Sprintf("$%d", i-1), v.s)
		}
		t = strings.ReplaceAll(t, "ISort", e.isort())
		return cval{t, so.Val, nil}, nil
	}
	if sf := e.w.CS.Specs[x.Fn]; sf != nil {
		return c.specCall(sf, x)
	}
	return cval{}, fmt.Errorf("unknown function %s in contract", x.Fn)
}

func (c *cenv) fp(v cval) string {
	if v.sort == "FP" {
		return v.s
	}
	return "(toFP " + v.s + ")"
}

func (c *cenv) specCall(sf *SpecFunc, x *CCall) (cval, error) {
	e := c.e
	if len(x.Args) != len(sf.Params) {
		return cval{}, fmt.Errorf("spec %s expects %d arguments", sf.Name, len(sf.Params))
	}
	if c.depth > 20 {
		return cval{}, fmt.Errorf("spec func expansion too deep (recursive?) at %s", sf.Name)
	}
	var args []cval
	for i, a := range x.Args {
		v, err := c.term(a)
		if err != nil {
			return cval{}, err
		}
		ch := c.child()
		ch.pkg = sf.Pkg
		ps, pt, err := ch.sortOfTypeName(sf.Params[i][1])
		if err != nil {
			return cval{}, fmt.Errorf("spec %s: %v", sf.Name, err)
		}
		if v.sort == "Nil" {
			v = cval{e.zero(ps), ps, pt}
		}
		if ps == "Iface" && v.sort != "Iface" && v.t != nil {
			v = cval{e.mkIface(v.s, v.t), "Iface", pt}
		}
		if v.sort == "Int" && ps == "ISort" && !e.bv {
			v.sort = "ISort"
		}
		if v.sort != ps && !(ps == "Int" && v.sort == "ISort" && !e.bv) {
			return cval{}, fmt.Errorf("spec %s argument %d: have %s, want %s", sf.Name, i+1, v.sort, ps)
		}
		if pt != nil {
			v.t = pt
		}
		args = append(args, v)
	}
	if sf.Body == nil {
		ch := c.child()
		ch.pkg = sf.Pkg
		rs, rt, err := ch.sortOfTypeName(sf.Ret)
		if err != nil {
			return cval{}, err
		}
		var sig []string
		var as []string
		for i, a := range args {
			s := a.sort
			if ps, _, _ := ch.sortOfTypeName(sf.Params[i][1]); ps != "" {
				s = ps
			}
			sig = append(sig, e.smtSort(s))
			as = append(as, a.s)
		}
		fname := sf.Name
		if len(sf.Reads) > 0 {
			// a function of the heap: one symbol per state of the arrays it reads
			var vs []string
			var arrs []string
			for a := range e.heapSort {
				arrs = append(arrs, a)
			}
			sort.Strings(arrs)
			for _, a := range arrs {
				for _, p := range sf.Reads {
					if matchArr(p, a) {
						v := 0
						if c.st != nil {
							v = c.st[a]
						}
						if v != 0 {
							vs = append(vs, fmt.Sprintf("%s@%d", a, v))
						}
						break
					}
				}
			}
			suffix := "s0"
			if len(vs) > 0 {
				h := fnv.New32a()
				h.Write([]byte(strings.Join(vs, ";")))
				suffix = fmt.Sprintf("s%08x", h.Sum32())
			}
			fname = sf.Name + "!" + suffix
			if e.specStates == nil {
				e.specStates = map[string]map[string]hstate{}
			}
			if e.specStates[sf.Name] == nil {
				e.specStates[sf.Name] = map[string]hstate{}
			}
			if _, ok := e.specStates[sf.Name][suffix]; !ok {
				st := hstate{}
				if c.st != nil {
					st = c.st.clone()
				}
				e.specStates[sf.Name][suffix] = st
			}
			fname = "|" + fname + "|"
		}
		e.declFun(fname, fmt.Sprintf("(%s) %s", strings.Join(sig, " "), e.smtSort(rs)))
		e.usedSpecs[sf.Name] = true
		if len(as) == 0 {
			return cval{"(" + fname + ")", rs, rt}, nil
		}
		return cval{fmt.Sprintf("(%s %s)", fname, strings.Join(as, " ")), rs, rt}, nil
	}
	ch := &cenv{e: e, vars: map[string]cval{}, st: c.st, old: c.old, pkg: sf.Pkg, depth: c.depth + 1}
	for i, p := range sf.Params {
		ch.vars[p[0]] = args[i]
	}
	r, err := ch.term(sf.Body)
	if err != nil {
		return cval{}, fmt.Errorf("in spec %s: %v", sf.Name, err)
	}
	return r, nil
}

// containsToken: name occurs in the SMT text as a whole symbol.
func containsToken(text, name string) bool {
	for i := 0; ; {
		j := strings.Index(text[i:], name)
		if j < 0 {
			return false
		}
		k := i + j + len(name)
		if k >= len(text) || text[k] == ' ' || text[k] == ')' {
			if i+j == 0 || text[i+j-1] == ' ' || text[i+j-1] == '(' {
				return true
			}
		}
		i = k
	}
}
