//go:build verif

package cases

//@ global-invariant ENGINE limit-is-five: limit == 5
//@ global-invariant ENGINE other-is-three: other == 3
//@ global-invariant ENGINE moving-is-one: moving == 1

//@ func unchangedValueInvariant
//@   property ENGINE
//@   loop 1 invariant n-positive: n > 0
//@   loop 1 invariant index: 0 <= i && i <= len(xs)
//@   ensures big: result >= 0 || true

//@ func unchangedHeapInvariant
//@   property ENGINE
//@   requires b != nil
//@   loop 1 invariant field-positive: b.n > 0
//@   loop 1 invariant index: 0 <= i && i <= len(b.data)

//@ func goodSum
//@   property ENGINE
//@   loop 1 invariant bounds: 0 <= i && i <= len(xs) && 0 <= s && s <= i
//@   loop 1 decreases len(xs) - i
//@   ensures counted: 0 <= result && result <= len(xs)

//@ func readFillsTheBuffer
//@   property ENGINE
//@   requires f != nil
//@   ensures still-zero: result == 0

//@ func decoderWritesThroughThePointer
//@   property ENGINE
//@   ensures still-seven: result == 7

//@ func wrongOnOnePath
//@   property ENGINE
//@   ensures positive: result > 0

//@ func undeclaredWrite
//@   property ENGINE
//@   requires b != nil
//@   assigns nothing

//@ func callsUndeclaredWrite
//@   property ENGINE
//@   requires b != nil
//@   ensures result == 5

//@ func notPreserved
//@   property ENGINE
//@   loop 1 invariant even-and-bounded: i <= n || n < 0

//@ func wraps
//@   property ENGINE
//@   ints bv64
//@   ensures result

//@ func needsPositive
//@   property ENGINE
//@   requires positive: x > 0
//@   ensures result >= 0

//@ func breaksPrecondition
//@   property ENGINE

//@ func usesLimit
//@   property ENGINE
//@   ensures at-most-five: result <= 5

//@ func bump
//@   property ENGINE

//@ func assertedNotAssumed
//@   property ENGINE
//@   assert at return: first: result == x + 2
//@   assert at return: second: result == x + 3

//@ func missingKey
//@   property ENGINE
//@   requires m != nil
//@   ensures zero: result == 0

//@ func deref
//@   property ENGINE

//@ func defSite
//@   property ENGINE
//@   loop 1 invariant wrong-about-n: n == 0
//@   loop 1 invariant index: i >= 0

//@ func readsMoving
//@   property ENGINE
//@   ensures unchanged: result == 0

//@ func lemmaOnlyDownstream
//@   property ENGINE
//@   prove at call 2 of cases.needsPositive: positive-again: x > 0

//@ func closureWrites
//@   property ENGINE
//@   ensures still-one: result == 1

//@ func viaIface
//@   property ENGINE
//@   requires b != nil && s != nil
//@   ensures still-one: result == 1

//@ func deferredResult
//@   property ENGINE
//@   ensures one: result == 1

//@ func sliceAlias
//@   property ENGINE
//@   requires len(xs) > 0
//@   ensures unchanged: result == old(xs[0])
//@   ensures five: result == 5

//@ func appendAlias
//@   property ENGINE
//@   ensures unchanged: result == 0

//@ func mapAlias
//@   property ENGINE
//@   requires m != nil
//@   ensures three: result == 3
//@   ensures old-value: has(old(m), "k") ==> result == old(m["k"])

//@ func divTruncRight
//@   property ENGINE
//@   requires x == -7
//@   ensures result == -3
//@ func divTruncWrong
//@   property ENGINE
//@   requires x == -7
//@   ensures result == -4
//@ func remRight
//@   property ENGINE
//@   requires x == -7
//@   ensures result == -1
//@ func remWrong
//@   property ENGINE
//@   requires x == -7
//@   ensures result == 1

//@ func structCopy
//@   property ENGINE
//@   requires b != nil
//@   ensures copy-is-separate: result == old(b.n)
//@ func pointerWrite
//@   property ENGINE
//@   requires b != nil
//@   ensures not-separate: result == old(b.n)
//@   ensures three: result == 3

//@ func commaOk
//@   property ENGINE
//@   ensures never-negative: result >= 0
//@   ensures at-least-minus-one: result >= -1

//@ func shiftOut
//@   property ENGINE
//@   ints bv64
//@   ensures zero: result == 0
//@   ensures same: result == x

//@ func switchPhi
//@   property ENGINE
//@   ensures sign: (x < 0 ==> result == -1) && (x > 0 ==> result == 1) && (x == 0 ==> result == 0)
//@   ensures never-zero: result != 0

//@ func rangeWrites
//@   property ENGINE
//@   loop 1 invariant zeroed: forall k int :: 0 <= k && k <= rangeindex && k < len(xs) ==> xs[k] == 0
//@   loop 1 invariant index: rangeindex >= -1 && rangeindex < len(xs)
//@   ensures zero: result == 0
//@   ensures old-value: len(xs) > 0 ==> result == old(xs[0])

//@ func calleeWrites
//@   property ENGINE
//@   requires b != nil
//@ func afterCall
//@   property ENGINE
//@   requires b != nil
//@   ensures still-one: result == 1

//@ func strIndex
//@   property ENGINE
//@   strings theory
//@   ensures short-gives-zero: len(s) <= 2 ==> result == 0
//@   ensures always-zero: result == 0

//@ func strConcatLen
//@   property ENGINE
//@   ensures sum: result == len(a) + len(b)
//@   ensures just-a: result == len(a)

//@ func floatAdd
//@   property ENGINE
//@   ensures always: result

//@ func floatEq
//@   property ENGINE
//@   ensures always: result

//@ func breakLoop
//@   property ENGINE
//@   loop 1 invariant bounds: 0 <= i && i <= len(xs)
//@   loop 1 invariant nonneg-so-far: forall k int :: 0 <= k && k < i ==> xs[k] >= 0
//@   ensures prefix-nonneg: forall k int :: 0 <= k && k < result ==> xs[k] >= 0
//@   ensures stops-at-negative: result < len(xs) ==> xs[result] < 0
//@   ensures all: result == len(xs)

//@ func twoNodes
//@   property ENGINE
//@   requires a != nil && b != nil
//@   ensures one: result == 1

//@ func nestedSlices
//@   property ENGINE
//@   ensures unchanged: len(xss) > 1 && len(xss[0]) > 0 && len(xss[1]) > 0 ==> result == old(xss[0][0])

//@ func ifaceEq
//@   property ENGINE
//@   ensures reflexive-looking: isNil(a) && isNil(b) ==> result
//@   ensures never: !result

//@ func convNarrow
//@   property ENGINE
//@   ints bv64
//@   ensures in-range: result >= -128 && result <= 127
//@   ensures same: result == x

//@ func uintSub
//@   property ENGINE
//@   ints bv64
//@   ensures no-larger: result <= a

//@ func multiReturn
//@   property ENGINE
//@   ensures positive-when-ok: result.1 ==> result.0 > 0
//@ func usesMulti
//@   property ENGINE
//@   ensures positive: result > 0
//@   ensures big: result > 1

//@ func sliceGuard
//@   property ENGINE
//@   ensures wrong-about-the-other-path: result == -1 ==> a <= b
//@   ensures right: result >= -1
//@ func makeGuard
//@   property ENGINE
//@   ensures wrong-about-the-other-path: result == -1 ==> n >= 0
//@   ensures right: result >= -1
//@ func assertGuard
//@   property ENGINE
//@   ensures wrong-about-the-other-path: result == -1 ==> typeIs(v, "string")
//@   ensures right: result >= -1
//@ func indexGuard
//@   property ENGINE
//@   ensures wrong-about-the-other-path: result == -1 ==> i >= 0 && i < len(xs)
//@ func strSliceGuard
//@   property ENGINE
//@   ensures wrong-about-the-other-path: result == -1 ==> a >= 0 && a <= len(s)
//@   ensures right: result >= -1
//@ func strSliceGuardTheory
//@   property ENGINE
//@   strings theory
//@   ensures wrong-about-the-other-path: result == -1 ==> a >= 0 && a <= len(s)
//@   ensures right: result >= -1
//@ func derefGuard
//@   property ENGINE
//@   ensures wrong-about-the-other-path: result == -1 ==> b != nil
//@ func mapGuard
//@   property ENGINE
//@   ensures wrong-about-the-other-path: result == -1 ==> m != nil
//@ func convGuard
//@   property ENGINE
//@   ensures wrong-about-the-other-path: result == -1 ==> x >= 0 && x < 256
//@   ensures right: result >= -1

//@ func setA
//@   property ENGINE
//@   requires p != nil
//@   assigns pair.a
//@   ensures p.a == 7
//@ func frameAtCallSite
//@   property ENGINE
//@   requires p != nil
//@   ensures right: result == 72
//@   ensures wrong: result == 12

//@ func bumpA
//@   property ENGINE
//@   requires p != nil
//@   assigns pair.a
//@   ensures p.a == old(p.a) + 1
//@ func oldInEnsures
//@   property ENGINE
//@   requires p != nil
//@   ensures right: p.a == old(p.a) + 2 && p.b == old(p.b)
//@   ensures wrong: p.a == old(p.a) + 1

//@ func structValue
//@   property ENGINE
//@   ensures right: result.a == p.a
//@   ensures wrong: result.a == 9
//@ func arrayValue
//@   property ENGINE
//@   ensures wrong: result == 5

//@ func rangeMap
//@   property ENGINE
//@   ensures wrong: result == 0
//@ func rangeString
//@   property ENGINE
//@   ensures wrong: result == len(s)

//@ func recovered
//@   property ENGINE
//@   ensures wrong: result == 1

//@ func typedNil
//@   property ENGINE
//@   ensures wrong: isNil(result)

//@ func calleeRequires
//@   property ENGINE
//@   requires nonempty: len(xs) > 0
//@ func guardedCall
//@   property ENGINE

//@ func ptrToLocal
//@   property ENGINE
//@   ensures right: result == 2
//@   ensures wrong: result == 1

//@ func loopWithCall
//@   property ENGINE
//@   requires p != nil
//@   loop 1 invariant b-stays: p.b == 3
//@   ensures right: result == 3
//@ func loopWithCallWrong
//@   property ENGINE
//@   requires p != nil
//@   loop 1 invariant a-stays: p.a == 3
//@   ensures wrong: result == 3

//@ func loopCallNoInvariant
//@   property ENGINE
//@   requires p != nil
//@   ensures wrong: result == 3
//@ func joinHeap
//@   property ENGINE
//@   requires p != nil
//@   ensures wrong: result == old(p.a)
//@   ensures right: c ==> result == 1
//@ func (*holder).run
//@   property ENGINE
//@   requires h.fn != nil
//@   ensures wrong: result == 1
//@ func nestedLoops
//@   property ENGINE
//@   loop 1 invariant outer: s >= 0 && i >= 0
//@   loop 2 invariant inner: s >= 0 && j >= 0
//@   ensures right: result >= 0
//@   ensures wrong: result == 0
//@ func earlyReturn
//@   property ENGINE
//@   loop 1 invariant none-so-far: 0 <= i && i <= len(xs) && (forall k int :: 0 <= k && k < i ==> xs[k] != 0)
//@   ensures right: result >= 0 ==> result < len(xs) && xs[result] == 0
//@   ensures right-none: result == -1 ==> (forall k int :: 0 <= k && k < len(xs) ==> xs[k] != 0)
//@   ensures wrong: result >= 0
//@ func labeled
//@   property ENGINE
//@   loop 1 invariant outer: n >= 0 && i >= 0
//@   loop 2 invariant inner: n >= 0 && j >= 0 && i >= 0 && i < len(xss)
//@   ensures right: result >= 0
//@   ensures wrong: result > 0
//@ func mapLoop
//@   property ENGINE
//@   requires m != nil
//@   ensures wrong: result == old(len(m))
//@ func strBuild
//@   property ENGINE
//@   ensures wrong: len(result) == 0
//@ func deleteKey
//@   property ENGINE
//@   requires m != nil
//@   ensures right: !result
//@   ensures wrong: result

//@ type acct invariant nonneg: self.bal >= 0
//@ func (*acct).deposit
//@   property ENGINE
//@ func readBal
//@   property ENGINE
//@   requires a != nil
//@   ensures nonneg: result >= 0

//@ iface shape.area
//@   ensures nonneg: result >= 0
//@ func total
//@   property ENGINE
//@   requires !isNil(x)
//@   ensures nonneg: result >= 0

//@ type wrap nonnil p
//@ func readP
//@   property ENGINE
//@   requires w != nil

//@ type counter guarded_by mu: n
//@ func (*counter).inc
//@   property ENGINE

//@ type reg guarded_by mu: m
//@ func (*reg).snapshot
//@   property ENGINE

//@ func untaggedLies
//@   ensures result == x + 1
//@ func reliesOnUntagged
//@   property ENGINE
//@   ensures result == x + 1

//@ func cellThroughCall
//@   property ENGINE
//@   ensures wrong: result == 1
//@ func sliceThroughCall
//@   property ENGINE
//@   ensures wrong: result == 0
//@ func mapThroughCall
//@   property ENGINE
//@   ensures wrong: result == 0
//@ func deepThroughCall
//@   property ENGINE
//@   requires c != nil && c.next != nil && c.next.next != nil
//@   ensures wrong: result == 1
//@ func viaGo
//@   property ENGINE
//@   requires p != nil
//@   ensures wrong: result == 1
//@ func viaGlobalFunc
//@   property ENGINE
//@   requires p != nil && hook != nil
//@   ensures wrong: result == 1

//@ func methodValue
//@   property ENGINE
//@   requires p != nil
//@   ensures wrong: result == 1
//@ func methodExpr
//@   property ENGINE
//@   requires p != nil
//@   ensures wrong: result == 1
//@ func viaField
//@   property ENGINE
//@   requires w != nil && b != nil && !isNil(w.s)
//@   ensures wrong: result == 1
//@ func variadic
//@   property ENGINE
//@   ensures wrong: result == 0
//@ func copyBuiltin
//@   property ENGINE
//@   ensures wrong: result == 1
//@ func appendGrow
//@   property ENGINE
//@   ensures wrong: result == 42

//@ func promotedPtr
//@   property ENGINE
//@   requires d != nil && d.base != nil
//@   ensures wrong: result == 1
//@ func promotedVal
//@   property ENGINE
//@   requires d != nil
//@   ensures wrong: result == 1
//@ func embeddedAlias
//@   property ENGINE
//@   requires d != nil && d.base != nil && b != nil
//@   ensures wrong: result == 1
//@ func typeSwitch
//@   property ENGINE
//@   ensures wrong: result >= -1
//@   ensures right: result >= -2 || typeIs(v, "int")
//@ func shadow
//@   property ENGINE
//@   ensures right: result == x
//@   ensures wrong: x > 0 ==> result == x + 1
