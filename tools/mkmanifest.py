#!/usr/bin/env python3
"""Regenerates /verif/MANIFEST.json from the table below (claimed checks + not_applicable)."""
import json, os, subprocess
V = os.path.dirname(os.path.dirname(os.path.abspath(__file__)))
props = [json.loads(l) for l in open(V + "/properties.jsonl")]
TECH = "contract-based deductive verification: weakest-precondition VCs generated from go/ssa of /repo (contracts in contracts_verif.go, tag verif), discharged by z3/cvc5"
claimed = {
 "C14": dict(
   text="Proof: every obligation generated from the current SSA of stringValueRuntime.Eval and GetInfix is discharged: slice/index safety for all strings, GetInfix = text between the first '{{' and the first '}}' after it (found iff both exist), loop invariant 'the scanned text is always a suffix of the literal' (substituted text is never scanned), strict decrease of the unscanned rest (termination), one-iteration rule ret' = ret ++ text-before-marker ++ replacement, result = accumulated output ++ unscanned rest, raw strings returned untouched.",
   note="Assumed: SMT string theory models Go strings; extern contract of strings.Index; evaluation interface frame (Eval does not modify existing AST nodes/tokens: confinement of AST writes to package parser is checked, freshness of the parser's own writes is assumed). Not decided: what the replacement text is (result of the oracle evaluation of the expression); escape decoding in the lexer.",
   ref="DESIGN.md §8 C14"),
 "C17": dict(
   text="Proof: isSubpath returns exactly inside(root, sub) (relative path exists, is not '..' and does not start with '../'); in FileImportLocator.Resolve the only file-system call is ioutil.ReadFile (every static callee in os/io/ioutil/net is compared with the allowed list), its argument is the cleaned join of root and path and inside(root, argument) holds on every path reaching it; an error yields the empty text; importRuntime.Eval performs no file-system call of its own.",
   note="Assumed (trusted externs): filepath.Rel/Clean/Join are lexical (modelled as uninterpreted functions; 'rel does not begin with ..' is read as 'lies lexically inside root'), fmt.Sprintf of string operands concatenates, os.PathSeparator is '/'. Not decided: byte-for-byte equality of returned text and file content; symbolic links.",
   ref="DESIGN.md §8 C17"),
 "C13": dict(
   text="Proof of the frame condition 'no package-level state is written after init': a whole-program write analysis over the SSA of every function of parser, interpreter, scope, stdlib, util and engine (stores, map updates, deletes, appends, calls writing through an argument, followed through parameters, closure bindings, interface dispatch and function values) yields one obligation per write site; each must be a sync/atomic operation on a variable declared atomic, dominated by Lock() of the declared package-level mutex, or a declared registration-time API. In addition the parser entry points write nothing reachable from their arguments. With no shared state written, concurrent parses cannot influence each other. Counterexamples are replayed by 16 goroutines x 400 concurrent parses compared with the sequential answers (plus uniqueness of runtime-component ids).",
   note="Decided structurally (no SMT needed: the obligations are frame conditions over write sites). Assumed: no writes through reflection/unsafe; library objects shared through package-level variables (templates, regexps) are concurrency-safe as documented; the stdlib registration API (AddStdlibPkg/AddStdlibFunc) and engine.UnitTestResetIDs are not called concurrently with parsing or evaluation. Not decided: the Go runtime's behaviour under an actual race (absence of the racing write is what is proved).",
   ref="DESIGN.md §8 C13"),
 "C11": dict(
   text="Proof obligations discharged on the current tree: (own) the sink action closure stores to none of its captured variables, and no function reachable from any Runtime.Eval / ECALFunction.Run implementer or from the action stores to a structure shared by concurrent invocations (runtime components, AST nodes, tokens, runtime provider, function objects) unless the field has a declared lock; (lock) for varsScope every read/write of parent, children, storage and of the containers stored there holds the scope lock (SMT, ghost lock set), the lock set is balanced at every return, no lock is taken twice, helper methods are entered with the lock held, the tree-lock invariant (child.lock == parent.lock) is re-established by SetParentOfScope/NewChild and is what lets a child's critical section cover its ancestors; SetParentOfScope is only called with a scope that is not yet in the parent's tree. Counterexamples are replayed under the Go race detector (2400 overlapping invocations of one sink with payload-dictated outcomes; overlapping scope calls).",
   note="Assumed: lock-invariant (Owicki-Gries) reasoning; the lock field of a scope is only replaced while the scope is private to its creator (declared stable; writers restricted to SetParentOfScope/NewChild); Validate runs before a tree is shared; parser entry points write only the tree they create (trusted frame); callees are lock-balanced. Not decided: attribution of errors to events inside the engine (Task.Run/HandleError: see C02), races inside dependency objects, user-level shared globals.",
   ref="DESIGN.md §8 C11"),
 "C12": dict(
   text="Proof (SMT, ghost lock set): in mutexRuntime.Eval the block (Children[1].Eval) is entered only while this thread holds the named mutex or the owner table - read under the table lock - says this thread already owns it (re-entrancy takes no lock); ownership is registered only while holding the mutex and cleared in the deferred release before the mutex is unlocked; the deferred release runs on every return path of Eval (defer model) and the lock set at every return equals the one at entry (always released, nested activation releases nothing); every access to the mutex and owner tables holds the table lock, which is never held while the block runs; table entries are created once, as fresh objects; structurally, only the mutex runtime writes the two tables; NewThreadID is >= 1 and strictly increasing under its lock.",
   note="Assumed: sync.Mutex excludes other threads; distinct non-zero thread ids per thread; the named mutex differs from the table lock (justified by two checked obligations, see contract file); panic exits are excluded (C06). Not decided: the cross-thread owner-table invariant itself is argued from the per-thread obligations, not mechanised.",
   ref="DESIGN.md §8 C12"),
 "C09": dict(
   text="Proof obligations discharged on the current tree for every function of the pool: (lock, SMT over a ghost lock set) every access to queue, workerMap, workerIdleMap, workerKill, workerIDCount and the regulation flags holds the declared lock, the five locks are pairwise distinct (type invariant established by the constructor), no lock is taken twice, every return and every loop iteration leaves the lock set as found; (cond) every Signal/Broadcast of newTaskCond is issued while holding its lock (SMT), the idle task's Wait is reached only through a branch that depends on a test of both parts of the predicate (task queued / worker asked to exit) made in the same critical section, and after every write that can make the predicate true (queue.Push, workerKill) every path to a return signals the condition (structural path checks). By the discipline argument no wake-up is lost under any schedule: a queued task is started without any further call. Counterexamples are replayed by a single-worker stress schedule and by the race detector.",
   note="Assumed: soundness of the wait/signal discipline and of lock-invariant reasoning (argued in DESIGN §7.4, not mechanised); sync.Cond.Signal wakes a waiter if there is one; callees are lock-balanced. Not decided: that each popped task is run exactly once (follows from Pop under queueLock, not yet under contract), convergence of the polling loops in WaitAll/JoinAll/SetWorkerCount (liveness under fairness).",
   ref="DESIGN.md §8 C09"),
 "C02": dict(
   text="Proof obligations discharged for the cascade bookkeeping (21 functions of engine and engine/pubsub): every access to unfinished, errors, incomplete, priorities, the task-queue map and the observer table holds the declared lock (SMT, ghost lock set), lock sets are balanced; per critical section the counter arithmetic is exact (descendantCreated: +1, descendantFinished: -1, values compared with the state right after the lock was taken); the last-one test is made under the lock, the finished message is posted after the unlock, for this cascade, exactly once per call and exactly when the counter reached zero (ghost call counters); a child monitor is counted before NewChildMonitor returns; Task.Run processes its own event under its own monitor and finishes that monitor iff there were no errors, otherwise returns a TaskError carrying its own event and monitor; HandleError attaches the errors to its own monitor before finishing it, once; AddEventAndWait registers its observer for exactly this monitor before adding the event, adds the event under that monitor, waits iff the event was accepted and removes the observer otherwise; AddEvent activates the monitor with this event before queuing a task that carries this event and monitor; observer callbacks run without the table lock.",
   note="Assumed: lock-invariant reasoning; sync.WaitGroup; ownership transfer of a monitor with its task (unlocked monitor fields are confined to the owning task). Not decided: liveness (the call returns when actions terminate: wake-up part is C09); the induction over the history that turns the per-step counter proofs into unfinished == |created minus finished|.",
   ref="DESIGN.md §8 C02"),
 "C10": dict(
   text="Proof obligations discharged: RuleSlice.Less orders by ascending priority number; in ProcessEvent the rules to execute are sorted exactly once before the first action is called and the sorted slice is the one that is executed; loop invariant of the execution loop: with fail-on-first-error set no action is called once an error was recorded (the error map is private to the activation); every action gets this processor, monitor, event and thread id; the setter stores the flag and the ECAL runtime provider enables it; every monitor that becomes active (Activate and Skip) was counted as active before, Finish/SetErrors report to the root exactly once, the incomplete/priorities accounting is only touched under the root monitor's lock.",
   note="Assumed (dependency krotik/common and sort.Sort, not in /repo): sort.Sort sorts by Less, sortutil.PriorityQueue pops the (priority, insertion) minimum, sortutil.IntHeap keeps its minimum first. Not decided: the dequeue order across several workers (schedule dependent), equality of HighestPriority with the minimum over active monitors as a global invariant (the per-step accounting is what is proved).",
   ref="DESIGN.md §8 C10"),
 "C15": dict(
   text="Proof obligations discharged for the debugger (19 functions): (cond) the running flag of an interrogation state is only read and written under the lock of its condition (SMT, ghost lock set; lock given as the path cond.L), the suspended thread's Wait is reached only through a test of the flag in the same critical section, every write that sets the flag is followed by a Broadcast issued under that lock: by the discipline argument a continue addressed to a suspended thread is never lost; a new interrogation state counts as running until the thread suspends itself; (lock) every access to the debugger's tables holds ed.lock in the required mode (writes need the write lock), lock sets balanced incl. the hand-rolled unlock/relock around nested visits; (frame) the three visit hooks write nothing reachable from the node and scope they are shown, call only reading methods of the scope, and VisitState/VisitStepOutState always return nil (transparency as a frame condition).",
   note="Assumed: soundness of the wait/signal discipline and of lock reasoning; the interrogation command is handed over with the wake-up (written by the controller only while the thread is suspended); the interpreter passes its current node and scope. Not decided: equality of timing dependent output between debugged and plain runs; the exact suspension condition (breakpoint and stepping semantics) is not under contract.",
   ref="DESIGN.md §8 C15"),
 "C16": dict(
   text="Proof: every safety obligation (nil dereference, index and slice bounds, unchecked type assertion, nil-map write, explicit assert) generated for HandleInput, all ten command handlers, AssertNumParam and every debugger method they reach (28 functions) is discharged for all argument vectors and for every debugger state satisfying the invariant established by NewECALDebugger (tables non-nil; mutex log, owners and thread pool possibly nil; call stacks possibly empty; interrogation states non-nil with node and scope), together with lock balance at every exit (no debugger lock left held) and a reachable normal exit per handler (vacuity probes).",
   note="Assumed: library callees do not panic on non-nil arguments; call stacks hold call nodes with tokens (established by the visit hooks, assumed here); evaluation of injected expressions is C06's business; parser.ParseWithRuntime returns a tree with a runtime or an error (C07). Not decided: JSON-encodability of results; termination by inspection.",
   ref="DESIGN.md §8 C16"),
}
NA_DEFAULT = "not yet claimed: contracts for this property are still being built (DESIGN.md §8); no other technique is substituted"
na = {}
m = {
 "version": 1,
 "setup_cmd": "cd /verif/gvc && GOFLAGS=-mod=mod GOPROXY=off GOSUMDB=off GOTOOLCHAIN=local go build -o /verif/bin/gvc .",
 "hooks": {
  "guard": "verif",
  "enable": "go build -tags verif ./...  (the tag only adds comment-only contracts_verif.go files read by /verif/gvc; no executable code)",
  "baseline_off_cmd": "cd /repo && GOFLAGS=-mod=mod GOPROXY=off GOSUMDB=off go test -vet=off -count=1 -timeout 25m ./...",
  "source_commits": subprocess.run("git -C /repo log --format=%H --grep='^verif:'", shell=True, capture_output=True, text=True).stdout.split(),
  "add_only": True,
 },
 "engines": [{"name": "gvc", "path": "/verif/gvc", "serves_properties": sorted(claimed), "kind_free_text": "verification-condition generator over go/ssa + SMT portfolio (z3-new 5.1.0, z3 4.8.12, cvc5 1.0), contracts as //@ comments in /repo/*/contracts_verif.go"}],
 "checks": [],
 "notes": "See DESIGN.md. ./check <ID> quick|thorough; known findings in known_findings.json; self-test corpus in selftest/ and seeded/.",
 "not_applicable": [],
}
for p in props:
    i = p["id"]
    if i in claimed:
        c = claimed[i]
        m["checks"].append({
          "property_id": i, "quick_cmd": "./check %s quick" % i, "thorough_cmd": "./check %s thorough" % i,
          "evidence_file": "/verif/evidence/%s.json" % i, "replay_cmd_template": "./check replay {path}", "engine": "gvc",
          "level_claimed": {"category": "proof", "text": c["text"], "design_ref": c["ref"]},
          "level_note": c["note"], "technique": TECH})
    else:
        m["not_applicable"].append({"property_id": i, "reason": na.get(i, NA_DEFAULT)})
json.dump(m, open(V + "/MANIFEST.json", "w"), indent=1)
print("claimed", sorted(claimed), "n/a", len(m["not_applicable"]))
