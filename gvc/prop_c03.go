package main

import "regexp"

func init() {
	registerProp(&PropSpec{ID: "C03", Title: "Expressions evaluate per the documented operator semantics and precedence", MinObls: 80,
		Classes:     regexp.MustCompile(`^(pre|post|inv|dec|assert|frame|safe:(div0|rem0|index|slice|assert-type|ifacecmp))`),
		TrustedBase: []string{"SMT-LIB FloatingPoint (IEEE-754 double, round to nearest even) for Go float64 arithmetic", "SMT string theory (str.<, str.<=, str.prefixof, str.suffixof) for Go string comparison", "ghost call results callresult() / counters ncalls()"},
		Assumptions: []string{"math.Floor rounds toward minus infinity (extern contract)", "reflect.DeepEqual for list / map equality (trusted)", "fmt.Sprint renders operands for the string operators (opaque)",
			"child counts of operator nodes (two operands for infix, one for prefix forms: parser side below / C07)"},
		NotDecided: []string{"regular expression matching of like (regexp package)", "that the runtime provider maps each operator node kind to its runtime component (table interpreter.providerMap is read, not proved complete)"}})
}
