#!/usr/bin/env python3
# usage: mkmut.py <dir mutants|benign> <name> <prop> <file> <<< "old\n===\nnew"
import sys, subprocess
d, name, prop, path = sys.argv[1:5]
old, new = sys.stdin.read().split("\n===\n")
new = new.rstrip("\n")
old = old.rstrip("\n")
p = "/repo/" + path
s = open(p).read()
if s.count(old) != 1:
    print("MKMUT %s: old text occurs %d times" % (name, s.count(old))); sys.exit(1)
open(p, "w").write(s.replace(old, new))
b = subprocess.run("cd /repo && export GOFLAGS=-mod=mod GOPROXY=off GOSUMDB=off GOTOOLCHAIN=local && go build ./parser ./interpreter ./scope ./util ./stdlib ./engine/... ./cli/... ./config 2>&1 | head -5", shell=True, capture_output=True, text=True).stdout
diff = subprocess.run("git -C /repo diff", shell=True, capture_output=True, text=True).stdout
subprocess.run("git -C /repo checkout -- .", shell=True)
if b.strip():
    print("MKMUT %s: does not build: %s" % (name, b)); sys.exit(1)
open("/verif/selftest/%s/%s.patch" % (d, name), "w").write("# property: %s\n%s" % (prop, diff))
print("MKMUT", name, "ok")
