package main

// Contract expression language: a small Pratt parser (DESIGN Appendix C).
//
//   expr := quant | expr '<==>' expr | expr '==>' expr | expr '||' expr | expr '&&' expr
//         | expr cmp expr | expr arith expr | unary | primary
//   quant := ('forall'|'exists') ident type (',' ident type)* '::' expr
//   primary := lit | ident | primary '.' ident | primary '[' expr ']' | primary '[' lo ':' hi ']'
//            | ident '(' args ')' | '(' expr ')'

import (
	"fmt"
	"strings"
	"unicode"
)

type CExpr interface{ String() string }

type (
	CLit   struct{ Kind, Val string } // int, string, bool, nil
	CIdent struct{ Name string }
	CSel   struct {
		X   CExpr
		Sel string
	}
	CIndex struct{ X, I CExpr }
	CSlice struct{ X, Lo, Hi CExpr }
	CCall  struct {
		Fn   string
		Args []CExpr
	}
	CUnary struct {
		Op string
		X  CExpr
	}
	CBinary struct {
		Op   string
		X, Y CExpr
	}
	CQuant struct {
		Forall bool
		Vars   [][2]string // name, type
		Body   CExpr
		// Triggers: instantiation patterns, "{t1, t2} {t3}" after the binders (each group is one multi-pattern)
		Triggers [][]CExpr
	}
)

func (c *CLit) String() string {
	if c.Kind == "string" {
		return fmt.Sprintf("%q", c.Val)
	}
	return c.Val
}
func (c *CIdent) String() string { return c.Name }
func (c *CSel) String() string   { return c.X.String() + "." + c.Sel }
func (c *CIndex) String() string { return c.X.String() + "[" + c.I.String() + "]" }
func (c *CSlice) String() string {
	lo, hi := "", ""
	if c.Lo != nil {
		lo = c.Lo.String()
	}
	if c.Hi != nil {
		hi = c.Hi.String()
	}
	return c.X.String() + "[" + lo + ":" + hi + "]"
}
func (c *CCall) String() string {
	var a []string
	for _, x := range c.Args {
		a = append(a, x.String())
	}
	return c.Fn + "(" + strings.Join(a, ", ") + ")"
}
func (c *CUnary) String() string  { return c.Op + c.X.String() }
func (c *CBinary) String() string { return "(" + c.X.String() + " " + c.Op + " " + c.Y.String() + ")" }
func (c *CQuant) String() string {
	q := "exists"
	if c.Forall {
		q = "forall"
	}
	var vs []string
	for _, v := range c.Vars {
		vs = append(vs, v[0]+" "+v[1])
	}
	tr := ""
	for _, g := range c.Triggers {
		var ts []string
		for _, t := range g {
			ts = append(ts, t.String())
		}
		tr += " {" + strings.Join(ts, ", ") + "}"
	}
	return "(" + q + " " + strings.Join(vs, ", ") + tr + " :: " + c.Body.String() + ")"
}

type ctok struct {
	kind string // ident int string op eof
	val  string
	pos  int
}

func clex(s string) ([]ctok, error) {
	var toks []ctok
	i := 0
	ops := []string{"<==>", "==>", "&&", "||", "==", "!=", "<=", ">=", "<<", ">>", "&^", "::", "++",
		"+", "-", "*", "/", "%", "&", "|", "^", "<", ">", "!", "(", ")", "[", "]", ".", ",", ":", "?", "{", "}"}
	for i < len(s) {
		c := s[i]
		switch {
		case c == ' ' || c == '\t' || c == '\n':
			i++
		case c == '"':
			j := i + 1
			var sb strings.Builder
			for j < len(s) && s[j] != '"' {
				if s[j] == '\\' && j+1 < len(s) {
					j++
					switch s[j] {
					case 'n':
						sb.WriteByte('\n')
					case 't':
						sb.WriteByte('\t')
					case 'r':
						sb.WriteByte('\r')
					default:
						sb.WriteByte(s[j])
					}
					j++
					continue
				}
				sb.WriteByte(s[j])
				j++
			}
			if j >= len(s) {
				return nil, fmt.Errorf("unterminated string at %d", i)
			}
			toks = append(toks, ctok{"string", sb.String(), i})
			i = j + 1
		case c == '\'':
			// char literal -> int
			if i+2 < len(s) && s[i+2] == '\'' {
				toks = append(toks, ctok{"int", fmt.Sprint(int(s[i+1])), i})
				i += 3
			} else if i+3 < len(s) && s[i+1] == '\\' && s[i+3] == '\'' {
				v := map[byte]int{'n': 10, 't': 9, 'r': 13, '\\': 92, '\'': 39, '0': 0}[s[i+2]]
				toks = append(toks, ctok{"int", fmt.Sprint(v), i})
				i += 4
			} else {
				return nil, fmt.Errorf("bad char literal at %d", i)
			}
		case c >= '0' && c <= '9':
			j := i
			for j < len(s) && (unicode.IsDigit(rune(s[j])) || s[j] == 'x' || (s[j] >= 'a' && s[j] <= 'f') || (s[j] >= 'A' && s[j] <= 'F')) {
				j++
			}
			toks = append(toks, ctok{"int", s[i:j], i})
			i = j
		case unicode.IsLetter(rune(c)) || c == '_' || c == '$':
			j := i
			for j < len(s) && (unicode.IsLetter(rune(s[j])) || unicode.IsDigit(rune(s[j])) || s[j] == '_' || s[j] == '$') {
				j++
			}
			toks = append(toks, ctok{"ident", s[i:j], i})
			i = j
		default:
			found := false
			for _, op := range ops {
				if strings.HasPrefix(s[i:], op) {
					toks = append(toks, ctok{"op", op, i})
					i += len(op)
					found = true
					break
				}
			}
			if !found {
				return nil, fmt.Errorf("unexpected character %q at %d", c, i)
			}
		}
	}
	toks = append(toks, ctok{"eof", "", len(s)})
	return toks, nil
}

type cparser struct {
	toks []ctok
	p    int
	src  string
}

func parseCExpr(s string) (ex CExpr, err error) {
	toks, err := clex(s)
	if err != nil {
		return nil, fmt.Errorf("%v in %q", err, s)
	}
	p := &cparser{toks: toks, src: s}
	defer func() {
		if r := recover(); r != nil {
			err = fmt.Errorf("contract expression %q: %v", s, r)
		}
	}()
	ex = p.expr(0)
	if p.cur().kind != "eof" {
		panic(fmt.Sprintf("unexpected %q at %d", p.cur().val, p.cur().pos))
	}
	return ex, nil
}

func (p *cparser) cur() ctok { return p.toks[p.p] }
func (p *cparser) next() ctok {
	t := p.toks[p.p]
	if p.p < len(p.toks)-1 {
		p.p++
	}
	return t
}
func (p *cparser) expect(v string) {
	if p.cur().val != v {
		panic(fmt.Sprintf("expected %q, found %q at %d", v, p.cur().val, p.cur().pos))
	}
	p.next()
}

var cprec = map[string]int{
	"<==>": 1, "==>": 2, "||": 3, "&&": 4,
	"==": 5, "!=": 5, "<": 5, "<=": 5, ">": 5, ">=": 5,
	"+": 6, "-": 6, "|": 6, "^": 6, "++": 6,
	"*": 7, "/": 7, "%": 7, "<<": 7, ">>": 7, "&": 7, "&^": 7,
}

func (p *cparser) expr(min int) CExpr {
	left := p.unary()
	for {
		t := p.cur()
		if t.kind != "op" {
			return left
		}
		pr, ok := cprec[t.val]
		if !ok || pr < min {
			return left
		}
		p.next()
		var right CExpr
		if t.val == "==>" || t.val == "<==>" {
			right = p.expr(pr) // right assoc
		} else {
			right = p.expr(pr + 1)
		}
		left = &CBinary{t.val, left, right}
	}
}

func (p *cparser) unary() CExpr {
	t := p.cur()
	if t.kind == "op" && (t.val == "!" || t.val == "-" || t.val == "^" || t.val == "*") {
		p.next()
		return &CUnary{t.val, p.unary()}
	}
	if t.kind == "ident" && (t.val == "forall" || t.val == "exists") {
		p.next()
		q := &CQuant{Forall: t.val == "forall"}
		for {
			n := p.next()
			// type: ident, *ident, []ident, pkg.ident
			tyS := ""
			for p.cur().val == "*" || p.cur().val == "[" {
				if p.cur().val == "[" {
					p.next()
					p.expect("]")
					tyS += "[]"
				} else {
					p.next()
					tyS += "*"
				}
			}
			ty := p.next()
			if n.kind != "ident" || ty.kind != "ident" {
				panic("bad quantifier binder")
			}
			tyS += ty.val
			if p.cur().val == "." {
				p.next()
				tyS += "." + p.next().val
			}
			q.Vars = append(q.Vars, [2]string{n.val, tyS})
			if p.cur().val == "," {
				p.next()
				continue
			}
			break
		}
		for p.cur().val == "{" {
			p.next()
			var grp []CExpr
			for {
				grp = append(grp, p.expr(0))
				if p.cur().val == "," {
					p.next()
					continue
				}
				break
			}
			p.expect("}")
			q.Triggers = append(q.Triggers, grp)
		}
		p.expect("::")
		q.Body = p.expr(0)
		return q
	}
	return p.postfix(p.primary())
}

func (p *cparser) primary() CExpr {
	t := p.next()
	switch t.kind {
	case "int":
		return &CLit{"int", t.val}
	case "string":
		return &CLit{"string", t.val}
	case "ident":
		switch t.val {
		case "true", "false":
			return &CLit{"bool", t.val}
		case "nil":
			return &CLit{"nil", "nil"}
		}
		if p.cur().val == "(" {
			p.next()
			c := &CCall{Fn: t.val}
			for p.cur().val != ")" {
				c.Args = append(c.Args, p.expr(0))
				if p.cur().val == "," {
					p.next()
				} else {
					break
				}
			}
			p.expect(")")
			return c
		}
		return &CIdent{t.val}
	case "op":
		if t.val == "(" {
			e := p.expr(0)
			p.expect(")")
			return e
		}
	}
	panic(fmt.Sprintf("unexpected %q at %d", t.val, t.pos))
}

func (p *cparser) postfix(x CExpr) CExpr {
	for {
		t := p.cur()
		switch {
		case t.val == "." && t.kind == "op":
			p.next()
			n := p.next()
			if n.kind != "ident" && n.kind != "int" {
				panic("bad selector")
			}
			// method-style call on a selector is not supported; selector only
			x = &CSel{x, n.val}
		case t.val == "[" && t.kind == "op":
			p.next()
			var lo, hi CExpr
			if p.cur().val == ":" {
				p.next()
				if p.cur().val != "]" {
					hi = p.expr(0)
				}
				p.expect("]")
				x = &CSlice{x, nil, hi}
				continue
			}
			lo = p.expr(0)
			if p.cur().val == ":" {
				p.next()
				if p.cur().val != "]" {
					hi = p.expr(0)
				}
				p.expect("]")
				x = &CSlice{x, lo, hi}
				continue
			}
			p.expect("]")
			x = &CIndex{x, lo}
		default:
			return x
		}
	}
}

// cexprIdents collects the identifiers of an expression (bound variables included).
func cexprIdents(ex CExpr, out map[string]bool) {
	switch x := ex.(type) {
	case *CIdent:
		out[x.Name] = true
	case *CSel:
		cexprIdents(x.X, out)
	case *CIndex:
		cexprIdents(x.X, out)
		cexprIdents(x.I, out)
	case *CSlice:
		cexprIdents(x.X, out)
		if x.Lo != nil {
			cexprIdents(x.Lo, out)
		}
		if x.Hi != nil {
			cexprIdents(x.Hi, out)
		}
	case *CCall:
		for _, a := range x.Args {
			cexprIdents(a, out)
		}
	case *CUnary:
		cexprIdents(x.X, out)
	case *CBinary:
		cexprIdents(x.X, out)
		cexprIdents(x.Y, out)
	case *CQuant:
		cexprIdents(x.Body, out)
		for _, g := range x.Triggers {
			for _, t := range g {
				cexprIdents(t, out)
			}
		}
	}
}
