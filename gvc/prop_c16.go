package main

import (
	"regexp"
	"strings"
	"time"
)

func init() {
	registerProp(&PropSpec{ID: "C16", Title: "The debugger command interface is total", MinObls: 150,
		Classes:     regexp.MustCompile(`^(safe|lock|escape|inv|pre|post|assert|finding|frame)`),
		TrustedBase: []string{"zero-annotation safety obligations: one per instruction that can panic (nil dereference, index/slice bounds, unchecked type assertion, nil map write, division by zero, explicit panic/assert)", "native model of sync primitives (lock balance: no debugger lock is left held)"},
		Assumptions: []string{"library functions called by the handlers do not panic on non-nil arguments (strconv, strings, fmt, json)", "evaluation of injected expressions does not panic (C06)",
			"the debugger state is the one NewECALDebugger establishes plus what the visit hooks add: call stacks hold call nodes with tokens, interrogation states carry the node and scope they were created with"},
		NotDecided: []string{"JSON-encodability of dynamic result graphs (a property of encoding/json over value graphs)", "termination of each handler is by inspection (loops over maps and slices only)"}})
}

const c16ReplaySrc = `package interpreter

import (
	"fmt"
	"testing"
	"time"

	"github.com/krotik/ecal/parser"
	"github.com/krotik/ecal/scope"
	"github.com/krotik/ecal/util"
)

func verifCmd(dbg util.ECALDebugger, line string) {
	defer func() {
		if r := recover(); r != nil {
			fmt.Printf("REPLAY-CMD %q PANIC %v\n", line, r)
		}
	}()
	_, err := dbg.HandleInput(line)
	fmt.Printf("REPLAY-CMD %q ok err=%v\n", line, err)
}

func TestVerifReplay(t *testing.T) {
	// 1. a debugger that has not seen any evaluation yet
	verifCmd(NewECALDebugger(scope.NewScope(scope.GlobalScope)), "lockstate")

	// 2. a thread suspended at top level (empty call stack)
	erp := NewECALRuntimeProvider("replay", nil, util.NewMemoryLogger(10))
	vs := scope.NewScope(scope.GlobalScope)
	dbg := NewECALDebugger(vs)
	erp.Debugger = dbg
	ast, err := parser.ParseWithRuntime("replay", "a := 1\nb := 2\n", erp)
	if err != nil {
		t.Fatal(err)
	}
	if err = ast.Runtime.Validate(); err != nil {
		t.Fatal(err)
	}
	dbg.SetBreakPoint("replay", 1)
	tid := erp.NewThreadID()
	go ast.Runtime.Eval(vs, make(map[string]interface{}), tid)
	for i := 0; i < 2000; i++ {
		if d, ok := dbg.Describe(tid).(map[string]interface{}); ok && d["threadRunning"] == false {
			break
		}
		time.Sleep(time.Millisecond)
	}
	verifCmd(dbg, fmt.Sprintf("cont %v stepout", tid))
	dbg.StopThreads(0)

	// 3. inject with an expression that calls a function of the debugged program (watchdog: the
	// command handler must come back)
	erp3 := NewECALRuntimeProvider("replay3", nil, util.NewMemoryLogger(10))
	vs3 := scope.NewScope(scope.GlobalScope)
	dbg3 := NewECALDebugger(vs3)
	dbg3.BreakOnError(false)
	erp3.Debugger = dbg3
	ast3, err := parser.ParseWithRuntime("replay3", "func f() {\n return 1\n}\nb := 2\nc := 3\n", erp3)
	if err != nil {
		t.Fatal(err)
	}
	if err = ast3.Runtime.Validate(); err != nil {
		t.Fatal(err)
	}
	dbg3.SetBreakPoint("replay3", 5)
	tid3 := erp3.NewThreadID()
	go ast3.Runtime.Eval(vs3, make(map[string]interface{}), tid3)
	for i := 0; i < 2000; i++ {
		if d, ok := dbg3.Describe(tid3).(map[string]interface{}); ok && d["threadRunning"] == false {
			break
		}
		time.Sleep(time.Millisecond)
	}
	line := fmt.Sprintf("inject %v x f()", tid3)
	back := make(chan bool, 1)
	go func() { verifCmd(dbg3, line); back <- true }()
	select {
	case <-back:
	case <-time.After(3 * time.Second):
		fmt.Printf("REPLAY-CMD %q HANG the command handler did not come back within 3 s\n", line)
	}
	fmt.Println("REPLAY-DONE")
}
`

var c16ReplayCache string

// c16Replay: the two commands behind the failing sites are sent to a real debugger in the state the path
// condition names (no evaluation yet / thread suspended at top level).
func c16Replay(c *Checker, o *Obl) map[string]interface{} {
	var cmd string
	switch {
	case strings.Contains(o.ID, "LockState") || strings.Contains(o.ID, "lockstateCommand"):
		cmd = "lockstate"
	case strings.Contains(o.ID, "Continue") || strings.Contains(o.ID, "contCommand"):
		cmd = "stepout"
	case strings.Contains(o.ID, "InjectValue"):
		cmd = "inject"
	default:
		return nil
	}
	if c16ReplayCache == "" {
		run := runOverlayTestFlags(c.W.Repo, "interpreter", c16ReplaySrc, c.Dir, 60*time.Second, "")
		c16ReplayCache = run.Out
		if c16ReplayCache == "" {
			c16ReplayCache = "no output"
		}
	}
	rp := map[string]interface{}{"confirmed": false, "replay": "debugcmd: command lines sent to ECALDebugger.HandleInput on the real debugger", "replay_output": truncate(c16ReplayCache, 1500)}
	for _, l := range strings.Split(c16ReplayCache, "\n") {
		if strings.HasPrefix(l, "REPLAY-CMD") && strings.Contains(l, cmd) {
			rp["outcome"] = l
			if strings.Contains(l, "PANIC") || strings.Contains(l, "HANG") {
				rp["confirmed"] = true
			}
		}
	}
	return rp
}

func init() { propSpecs["C16"].Replay = c16Replay }
