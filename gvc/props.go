package main

import "regexp"

// Property registry: what each check covers beyond the functions tagged in contract files.

func init() {
	registerProp(&PropSpec{ID: "C17", Title: "File imports cannot escape the configured root directory", MinObls: 9,
		Classes:     regexp.MustCompile(`^(post|assert|pre|frame|inv|dec)`),
		TrustedBase: []string{"extern contracts filepath.Rel / Clean / Join as uninterpreted lexical path functions relPath, relFails, cleanPath, joinedPath (spec/extern.gvc)", "fmt.Sprintf model for %v/%s of string operands", "fmt.Errorf returns a non-nil error"},
		Assumptions: []string{"filepath.Rel(root, p) returns the lexical relative path of the cleaned arguments, so 'rel does not begin with a .. element' is 'p lies lexically inside root'", "os.PathSeparator == '/'"},
		NotDecided:  []string{"that the returned text equals the file content byte for byte ([]byte -> string conversion is not modelled)", "symbolic links (the statement is about lexical containment)"}})
	registerProp(&PropSpec{ID: "C14", Title: "String interpolation evaluates only the literal's own expressions, once", MinObls: 10, Classes: regexp.MustCompile(`^(post|inv|dec|pre|assert|safe:(slice|index))`),
		TrustedBase: []string{"SMT-LIB string theory as the model of Go strings (byte sequences)", "extern contracts strings.Index (spec/extern.gvc)"},
		NotDecided:  []string{"what strconv.Unquote makes of the escape sequences (library); proved here: every string start reaches the string state, a single-quoted literal is unquoted with all its double quotes escaped"}})
}

func init() {
	registerProp(&PropSpec{ID: "C11", Title: "Concurrent sink invocations are isolated; failures go to their own event", MinObls: 40, Extra: c11Extra, Replay: c11Replay,
		Classes:     regexp.MustCompile(`^(lock|own|inv|pre|post|frame|assert)`),
		TrustedBase: []string{"native model of sync.Mutex / sync.RWMutex (ghost lock set G_held / G_rheld per thread; acquiring a lock havocs everything that is not immutable, private or declared stable)"},
		Assumptions: []string{"soundness of lock-invariant reasoning (Owicki-Gries with locks): data that is only accessed with its declared lock held behaves sequentially inside the critical section",
			"callees leave the lock set as they found it (checked as lock:balance for every function under contract)"},
		NotDecided: []string{"races inside dependency objects (RingBuffer, loggers)", "isolation of user-level globals (sinks that write global variables share them by design)"}})
}
