package main

// C13: parsing is a pure, re-entrant function of its input. Decided by the frame condition
// "no package-level state is written after init" over every function of the library packages,
// plus "the parser writes nothing reachable from its arguments".

import (
	"fmt"
	"go/token"
	"sort"
	"strings"
	"time"

	"golang.org/x/tools/go/ssa"
)

// structEnc creates an encoder shell that only carries structurally decided obligations.
func (c *Checker) structEnc(f *ssa.Function) *enc {
	e := newEnc(c.W, f, nil, &EncOpts{})
	e.ok = true
	c.Encs = append(c.Encs, e)
	return e
}

func (c *Checker) addStruct(e *enc, class, label string, pos token.Pos, ok bool, note string) *Obl {
	goal := "false"
	if ok {
		goal = "true"
	}
	o := e.add(class, label, pos, "true", goal)
	o.Struct = true
	o.Note = note
	o.Props[c.Prop.ID] = true
	c.EncOf[o] = e
	c.Obls = append(c.Obls, o)
	return o
}

var c13Pkgs = map[string]bool{"parser": true, "interpreter": true, "scope": true, "stdlib": true, "util": true, "engine": true, "pool": true, "pubsub": true}

func c13Extra(c *Checker) {
	w := c.W
	w.immutableArr("")
	gw := w.Mod.computeGlobalWrites()
	nScanned := 0
	for _, f := range w.FuncList {
		if f.Pkg == nil || !c13Pkgs[f.Pkg.Pkg.Name()] {
			continue
		}
		if strings.HasPrefix(f.Name(), "init") && f.Signature.Recv() == nil && f.Parent() == nil {
			continue // package initialisers run before any goroutine of the embedding program
		}
		nScanned++
		writes := gw[f]
		if len(writes) == 0 {
			continue
		}
		e := c.structEnc(f)
		if fc := w.CS.Funcs[funcKey(f)]; fc != nil && fc.Opts["test-only"] != "" {
			c.Notes = append(c.Notes, funcKey(f)+" is declared a test-only helper: assumed not to run concurrently with anything")
			c.addStruct(e, "frame", "global:declared-test-only", f.Pos(), true, "declared test-only helper (assumption listed)")
			continue
		}
		for _, g := range writes {
			pkgOfVar := strings.SplitN(g.Global, ".", 2)[0]
			if !c13Pkgs[pkgOfVar] {
				continue // state of a library package (flag, base64, ...): outside the property
			}
			decl := w.CS.Globals[g.Global]
			switch {
			case strings.HasPrefix(decl, "atomic"):
				c.addStruct(e, "frame", "global:"+g.Global, g.Instr.Pos(), g.Atomic, "declared atomic: every write must go through sync/atomic ("+g.How+")")
			case strings.HasPrefix(decl, "init-time"):
				c.Notes = append(c.Notes, fmt.Sprintf("%s writes %s: declared registration-time state (%s) — assumed not to run concurrently with parsing/evaluation", funcKey(f), g.Global, strings.TrimPrefix(decl, "init-time ")))
				c.addStruct(e, "frame", "global:"+g.Global+":declared", g.Instr.Pos(), true, "declared registration-time write (assumption listed)")
			case strings.HasPrefix(decl, "guarded_by"):
				ok := lockHeldAtStructurally(f, g.Instr, strings.TrimSpace(strings.TrimPrefix(decl, "guarded_by")))
				c.addStruct(e, "frame", "global:"+g.Global, g.Instr.Pos(), ok, "declared "+decl+": the write must be dominated by Lock() of that package-level mutex with the Unlock deferred or following")
			case strings.HasPrefix(decl, "test-only"):
				c.addStruct(e, "frame", "global:"+g.Global+":declared", g.Instr.Pos(), true, "declared test-only helper")
			default:
				c.addStruct(e, "frame", "global:"+g.Global, g.Instr.Pos(), false, fmt.Sprintf("package-level variable %s is written outside init (%s): concurrent parses/evaluations share it", g.Global, g.How))
			}
		}
	}
	// one obligation per scanned package: the scan happened and covered n functions
	pk := map[string]int{}
	for _, f := range w.FuncList {
		if f.Pkg != nil && c13Pkgs[f.Pkg.Pkg.Name()] {
			pk[f.Pkg.Pkg.Name()]++
		}
	}
	var names []string
	for n := range pk {
		names = append(names, n)
	}
	sort.Strings(names)
	var first *ssa.Function
	for _, f := range w.FuncList {
		if funcKey(f) == "parser.ParseWithRuntime" {
			first = f
		}
	}
	if first == nil {
		c.engineErr = append(c.engineErr, "parser.ParseWithRuntime not found")
		return
	}
	e := c.structEnc(first)
	for _, n := range names {
		c.addStruct(e, "frame", "global-scan:"+n, first.Pos(), true, fmt.Sprintf("%d functions of package %s scanned for writes to package-level state (stores, map updates, deletes, appends, calls that write through an argument; followed through parameters and closure bindings)", pk[n], n))
	}
	// runtime parses (string interpolation, imports, debugger) construct runtime components through the shared
	// provider: nothing reachable from an evaluation may store into the shared interpreter structures
	sharedScan(c, nil)
	// the parser entry points write nothing reachable from their arguments
	for _, k := range []string{"parser.ParseWithRuntime", "parser.Parse", "parser.Lex", "parser.LexToList"} {
		f := w.Funcs[k]
		if f == nil {
			c.engineErr = append(c.engineErr, k+" not found")
			continue
		}
		wt := w.Mod.writesThrough[f]
		var bad []string
		for r := range wt {
			if strings.HasPrefix(r, "p:") {
				bad = append(bad, r)
			}
		}
		sort.Strings(bad)
		c.addStruct(e, "own", "args-not-written:"+k, f.Pos(), len(bad) == 0, fmt.Sprintf("memory reachable from the arguments of %s is not written (write-through set: %v)", k, bad))
	}
}

// lockHeldAtStructurally: the instruction is preceded in its function by a call g.Lock() on the
// named package-level mutex in a dominating block (or the same block earlier), and no Unlock of it
// lies between on that path (deferred unlocks run at exit).
func lockHeldAtStructurally(f *ssa.Function, at ssa.Instruction, lockVar string) bool {
	isLockCall := func(ins ssa.Instruction, name string) bool {
		c, ok := ins.(*ssa.Call)
		if !ok {
			return false
		}
		callee := c.Call.StaticCallee()
		if callee == nil || callee.Name() != name || len(c.Call.Args) == 0 {
			return false
		}
		for r := range rootsOf(c.Call.Args[0]) {
			if strings.HasSuffix(r, "."+lockVar) || r == "g:"+lockVar {
				return true
			}
		}
		return false
	}
	b := at.Block()
	idx := 0
	for i, x := range b.Instrs {
		if x == at {
			idx = i
		}
	}
	for blk := b; blk != nil; blk = blk.Idom() {
		end := len(blk.Instrs)
		if blk == b {
			end = idx
		}
		for i := end - 1; i >= 0; i-- {
			if isLockCall(blk.Instrs[i], "Unlock") {
				return false
			}
			if isLockCall(blk.Instrs[i], "Lock") {
				return true
			}
		}
	}
	return false
}

func init() {
	registerProp(&PropSpec{ID: "C13", Title: "Parsing is a pure, re-entrant function of its input", MinObls: 10, Extra: c13Extra, Replay: c13Replay,
		TrustedBase: []string{"whole-program write analysis over go/ssa (gvc/modref.go): stores, map updates, deletes, appends and argument write-through, closed over static calls, interface dispatch (class hierarchy) and address-taken functions"},
		Assumptions: []string{"reflection and unsafe are not used to write package-level state", "library objects reachable from package-level variables (text/template templates, regexp objects) are safe for concurrent use as documented",
			"package initialisers complete before the embedding program starts goroutines (Go semantics)"},
		NotDecided: []string{"the Go runtime's behaviour under an actual race: what is proved is that there is no write to shared package-level state to race on", "data races inside dependency objects"}})
}

const c13ReplaySrc = `package interpreter

import (
	"fmt"
	"reflect"
	"sync"
	"testing"

	"github.com/krotik/ecal/parser"
	"github.com/krotik/ecal/util"
)

func verifIDs(n *parser.ASTNode, out *[]string) {
	if n == nil {
		return
	}
	if n.Runtime != nil {
		v := reflect.ValueOf(n.Runtime)
		if v.Kind() == reflect.Ptr && v.Elem().Kind() == reflect.Struct {
			if f := v.Elem().FieldByName("baseRuntime"); f.IsValid() && !f.IsNil() {
				*out = append(*out, f.Elem().FieldByName("instanceID").String())
			}
		}
	}
	for _, c := range n.Children {
		verifIDs(c, out)
	}
}

func TestVerifReplay(t *testing.T) {
	progs := []string{
		"if a == 1 { b := 2 } elif a == 2 { b := 3 } else { c := {1 : 2} }",
		"for a in range(3) { x := {1 : 2} }",
		"m := {1 : 2, \"a\" : [1, 2]}\nn := {\"x\" : {\"y\" : 1}}",
		"func f(a) { if a { return {1 : 2} } \n return {3 : 4} }",
		"for a > 1 { a := a - 1 }\nz := {5 : 6}",
		"x := [1, {2 : 3}, {4 : {5 : 6}}]",
	}
	erp := NewECALRuntimeProvider("replay", nil, util.NewMemoryLogger(10))
	ref := map[string]string{}
	for _, p := range progs {
		ast, err := parser.ParseWithRuntime("p", p, erp)
		ref[p] = fmt.Sprint(ast) + "|" + fmt.Sprint(err)
	}
	var mu sync.Mutex
	mismatches := 0
	first := ""
	ids := map[string]int{}
	var wg sync.WaitGroup
	for g := 0; g < 16; g++ {
		wg.Add(1)
		go func(g int) {
			defer wg.Done()
			for i := 0; i < 400; i++ {
				p := progs[(g+i)%len(progs)]
				ast, err := parser.ParseWithRuntime("p", p, erp)
				got := fmt.Sprint(ast) + "|" + fmt.Sprint(err)
				var l []string
				verifIDs(ast, &l)
				mu.Lock()
				if got != ref[p] {
					mismatches++
					if first == "" {
						first = fmt.Sprintf("%q -> %v", p, err)
					}
				}
				for _, id := range l {
					ids[id]++
				}
				mu.Unlock()
			}
		}(g)
	}
	wg.Wait()
	dups := 0
	for _, n := range ids {
		if n > 1 {
			dups++
		}
	}
	fmt.Printf("REPLAY-MISMATCH %d %s\nREPLAY-DUPLICATE-IDS %d\nREPLAY-DONE\n", mismatches, first, dups)
}
`

var c13ReplayCache map[string]interface{}

// c13Replay: 16 goroutines parse programs with if/for/map literals on the real parser and compare with
// the sequential answers; runtime-component ids must be unique.
func c13Replay(c *Checker, o *Obl) map[string]interface{} {
	if c13ReplayCache == nil {
		rp := map[string]interface{}{"confirmed": false, "replay": "sched: 16 goroutines x 400 concurrent parser.ParseWithRuntime calls compared with the sequential answers; runtime-component ids collected"}
		run := runOverlayTest(c.W.Repo, "interpreter", c13ReplaySrc, c.Dir, 120*time.Second)
		rp["replay_output"] = truncate(run.Out, 2500)
		c13ReplayCache = rp
		switch {
		case strings.Contains(run.Out, "concurrent map"):
			rp["outcome"] = "fatal error: concurrent map read and map write / concurrent map writes (process aborted)"
			rp["table"], rp["ids"] = true, false
		case run.TimedOut:
			rp["outcome"] = "hang"
		case strings.Contains(run.Out, "REPLAY-DONE"):
			var mm, dd int
			var first string
			fmt.Sscanf(run.Out[strings.Index(run.Out, "REPLAY-MISMATCH"):], "REPLAY-MISMATCH %d %s", &mm, &first)
			fmt.Sscanf(run.Out[strings.Index(run.Out, "REPLAY-DUPLICATE-IDS"):], "REPLAY-DUPLICATE-IDS %d", &dd)
			rp["outcome"] = fmt.Sprintf("%d concurrent parses differ from the sequential answer; %d runtime-component ids handed out more than once", mm, dd)
			rp["table"], rp["ids"] = mm > 0, dd > 0
		default:
			rp["outcome"] = "replay did not run to completion"
		}
	}
	rp := map[string]interface{}{}
	for k, v := range c13ReplayCache {
		rp[k] = v
	}
	switch {
	case strings.Contains(o.ID, "astNodeMap"):
		rp["confirmed"] = c13ReplayCache["table"] == true
	case strings.Contains(o.ID, "instanceCounter"):
		rp["confirmed"] = c13ReplayCache["ids"] == true
	}
	delete(rp, "table")
	delete(rp, "ids")
	return rp
}
