package main

// Whole-program facts recomputed from the SSA on every run:
//  - constructor-only ("immutable") struct fields: every store to the field targets an object
//    allocated in the storing activation and the field's address never escapes;
//  - which functions store to which heap arrays (for confinement checks).

import (
	"go/types"
	"sort"
	"strings"

	"golang.org/x/tools/go/ssa"
)

type ModInfo struct {
	Mutable map[string]string            // array -> first witness (function: position) of a non-constructor write
	Writers map[string]map[string]bool   // array -> functions with a non-fresh store to it
	Fields  map[string]bool              // all field arrays seen
}

func isLocalAlloc(v ssa.Value) bool {
	switch x := v.(type) {
	case *ssa.Alloc:
		return true
	case *ssa.FieldAddr:
		return isLocalAlloc(x.X)
	case *ssa.Call:
		if b, ok := x.Call.Value.(*ssa.Builtin); ok && b.Name() == "new" {
			return true
		}
	}
	return false
}

func fieldArrName(pt types.Type, st *types.Struct, i int) string {
	return "H_" + sname(types.TypeString(pt, qualName)) + "." + st.Field(i).Name()
}

func (w *World) computeModInfo() *ModInfo {
	mi := &ModInfo{Mutable: map[string]string{}, Writers: map[string]map[string]bool{}, Fields: map[string]bool{}}
	markAll := func(t types.Type, why string) {
		var rec func(t types.Type, d int)
		rec = func(t types.Type, d int) {
			st, ok := t.Underlying().(*types.Struct)
			if !ok || d > 3 {
				return
			}
			for i := 0; i < st.NumFields(); i++ {
				a := fieldArrName(t, st, i)
				if _, ok := mi.Mutable[a]; !ok {
					mi.Mutable[a] = why
				}
				rec(st.Field(i).Type(), d+1)
			}
		}
		rec(t, 0)
	}
	for _, f := range w.FuncList {
		key := funcKey(f)
		for _, b := range f.Blocks {
			for _, ins := range b.Instrs {
				switch x := ins.(type) {
				case *ssa.FieldAddr:
					pt := x.X.Type().Underlying().(*types.Pointer).Elem()
					st := pt.Underlying().(*types.Struct)
					arr := fieldArrName(pt, st, x.Field)
					mi.Fields[arr] = true
					ft := st.Field(x.Field).Type()
					_, isStructField := ft.Underlying().(*types.Struct)
					for _, r := range *x.Referrers() {
						switch u := r.(type) {
						case *ssa.Store:
							if u.Addr == x {
								if !isLocalAlloc(x.X) {
									why := key + " " + shortPos(w.Fset, u.Pos())
									if _, ok := mi.Mutable[arr]; !ok {
										mi.Mutable[arr] = why
									}
									if mi.Writers[arr] == nil {
										mi.Writers[arr] = map[string]bool{}
									}
									mi.Writers[arr][key] = true
									if isStructField {
										markAll(ft, why)
									}
								}
							} else if !isStructField {
								// address stored somewhere: escapes
								if _, ok := mi.Mutable[arr]; !ok {
									mi.Mutable[arr] = key + " (address escapes)"
								}
							}
						case *ssa.UnOp, *ssa.DebugRef:
						case *ssa.FieldAddr, *ssa.IndexAddr:
							// nested access: handled at the nested instruction
						default:
							if !isStructField {
								if _, ok := mi.Mutable[arr]; !ok {
									mi.Mutable[arr] = key + " " + shortPos(w.Fset, x.Pos()) + " (address escapes)"
								}
							} else if _, isCall := r.(ssa.CallInstruction); !isCall {
								markAll(ft, key+" (address of struct field escapes)")
							} else if isCall {
								// method call on a by-value struct field (x.mu.Lock()): the callee may write the
								// sub-object's own fields; for repo struct types mark them mutable
								if n, ok := ft.(*types.Named); ok && n.Obj().Pkg() != nil && strings.HasPrefix(n.Obj().Pkg().Path(), repoModule) {
									markAll(ft, key+" (method call on struct field)")
								}
							}
						}
					}
				case *ssa.Store:
					// whole-struct store through a pointer
					if pt, ok := x.Addr.Type().Underlying().(*types.Pointer); ok {
						if _, isStruct := pt.Elem().Underlying().(*types.Struct); isStruct && !isLocalAlloc(x.Addr) {
							markAll(pt.Elem(), key+" "+shortPos(w.Fset, x.Pos())+" (struct assignment)")
						}
					}
				}
			}
		}
	}
	return mi
}

func (mi *ModInfo) immutableFields() []string {
	var r []string
	for a := range mi.Fields {
		if _, m := mi.Mutable[a]; !m {
			r = append(r, a)
		}
	}
	sort.Strings(r)
	return r
}
