package main

// Discipline obligations (DESIGN §7.4): immutable fields, lock sets (guarded_by, balance,
// no self-deadlock), condition variables. Ghost state: G_held / G_rheld : Ref -> Bool.

import (
	"fmt"
	"go/types"
	"strings"

	"golang.org/x/tools/go/ssa"
)

type lockUse struct {
	term string
	arr  string // G_held or G_rheld
}

func (e *enc) heldArr(arr string) string {
	e.harr(arr, "(Array Ref Bool)")
	return e.hname(arr)
}

func (e *enc) setHeld(arr, m string, v bool) {
	old := e.heldArr(arr)
	nv := e.bump(arr)
	e.assume(fmt.Sprintf("(= %s (store %s %s %v))", nv, old, m, v))
}

// guardOf: lock term protecting field `field` of the object at ref, if the field is declared guarded_by.
func (e *enc) guardOf(pt types.Type, st *types.Struct, field int, ref string) (string, string, bool) {
	n, ok := pt.(*types.Named)
	if !ok || n.Obj().Pkg() == nil {
		return "", "", false
	}
	td := e.w.CS.Types[n.Obj().Pkg().Name()+"."+n.Obj().Name()]
	if td == nil {
		return "", "", false
	}
	lf, ok := td.GuardedBy[st.Field(field).Name()]
	if !ok {
		return "", "", false
	}
	// the lock may be a path: "cond.L" = field L of the object in field cond
	path := strings.Split(lf, ".")
	curRef, curT := ref, pt
	for k, name := range path {
		cst, ok := curT.Underlying().(*types.Struct)
		if !ok {
			return "", "", false
		}
		found := false
		for i := 0; i < cst.NumFields(); i++ {
			if cst.Field(i).Name() != name {
				continue
			}
			found = true
			l := e.structFieldLoc(curRef, curT, cst, i)
			last := k == len(path)-1
			switch l.kind {
			case "field":
				v := e.load(l)
				if last {
					if l.sort == "Iface" {
						return "(iptr " + v + ")", lf, true
					}
					return v, lf, true
				}
				p, isPtr := l.t.Underlying().(*types.Pointer)
				if !isPtr {
					return "", "", false
				}
				curRef, curT = v, p.Elem()
			case "struct":
				if last {
					return l.ref, lf, true
				}
				curRef, curT = l.ref, l.t
			default:
				return "", "", false
			}
			break
		}
		if !found {
			return "", "", false
		}
	}
	return "", "", false
}

// escapeObl: a map or slice loaded from a guarded field is handed on (call argument, stored somewhere
// else, returned, boxed) - whoever receives it can use it without the lock, so handing it on is only
// accepted inside the critical section (the receiver then works under the caller's lock).
func (e *enc) escapeObl(ins ssa.Instruction, R string, v ssa.Value, how string) {
	t, ok := e.taint[v]
	if !ok {
		return
	}
	lock := t[0]
	goal := fmt.Sprintf("(or (select %s %s) (select %s %s))", e.heldArr("G_held"), lock, e.heldArr("G_rheld"), lock)
	e.addI("escape", "guarded-container:"+t[1]+":"+how, ins, R, goal)
}

func (e *enc) guardObl(ins ssa.Instruction, R, lock, what string, write bool, ref ...string) {
	held := fmt.Sprintf("(select %s %s)", e.heldArr("G_held"), lock)
	goal := held
	if !write {
		goal = fmt.Sprintf("(or %s (select %s %s))", held, e.heldArr("G_rheld"), lock)
	}
	if len(ref) > 0 {
		// an object allocated during this activation is not shared yet
		goal = fmt.Sprintf("(or %s (>= (birth %s) %s))", goal, ref[0], e.now(e.entry))
	}
	kind := "read"
	if write {
		kind = "write"
	}
	e.addI("lock", "guard:"+what+":"+kind, ins, R, goal)
}

// loadHook: a load through a field address.
func (e *enc) loadHook(b *ssa.BasicBlock, i *ssa.UnOp, result string) {
	fa, ok := i.X.(*ssa.FieldAddr)
	if !ok {
		return
	}
	e.invLoadHook(b, fa)
	pt := fa.X.Type().Underlying().(*types.Pointer).Elem()
	st := pt.Underlying().(*types.Struct)
	ref := e.val(fa.X)
	if e.localAlloc[ref] {
		return
	}
	lock, _, ok := e.guardOf(pt, st, fa.Field, ref)
	if !ok {
		return
	}
	what := typeShort(pt) + "." + st.Field(fa.Field).Name()
	_, isMap := i.Type().Underlying().(*types.Map)
	_, isSlice := i.Type().Underlying().(*types.Slice)
	if arr, _ := e.fieldArr(pt, st, fa.Field); (isMap || isSlice) && e.w.immutableArr(arr) {
		// the field itself is only written while its object is under construction: reading the
		// reference to the container needs no lock, its contents (tainted below) do. For pointers and
		// interfaces the read of the field stands for the use of the object behind it and keeps its obligation.
	} else {
		e.guardObl(i, e.reach[b], lock, what, false, ref)
	}
	// containers stored in guarded fields are guarded data
	switch i.Type().Underlying().(type) {
	case *types.Map, *types.Slice:
		e.taint[i] = [2]string{lock, what}
	}
}

func typeShort(t types.Type) string {
	return types.TypeString(t, qualName)
}

func (e *enc) storeHook(b *ssa.BasicBlock, i *ssa.Store, l loc, v string) {
	R := e.reach[b]
	if l.kind == "field" && e.w.immutableArr(l.arr) && !e.localAlloc[l.ref] {
		goal := fmt.Sprintf("(>= (birth %s) %s)", l.ref, e.now(e.entry))
		e.addI("frame", "immutable:"+strings.TrimPrefix(l.arr, "H_"), i, R, goal)
	}
	if l.kind == "field" && e.w.stableArr(l.arr) && !e.localAlloc[l.ref] {
		okW := e.fc != nil && e.fc.Opts["setup-writer"] != ""
		o := e.addI("own", "stable-write:"+strings.TrimPrefix(l.arr, "H_"), i, R, fmt.Sprint(okW))
		o.Struct = true
		o.Note = "a field declared stable may be written only on an object fresh in the activation, or in a function declared setup-writer (assumption: its argument is not shared yet)"
		if okW {
			e.assumptions[e.key+" writes the stable field "+l.arr+" of an object that is assumed not to be shared yet"] = true
		}
	}
	e.escapeObl(i, R, i.Val, "stored")
	if fa, ok := i.Addr.(*ssa.FieldAddr); ok {
		e.invStoreHook(fa)
		pt := fa.X.Type().Underlying().(*types.Pointer).Elem()
		st := pt.Underlying().(*types.Struct)
		ref := e.val(fa.X)
		if !e.localAlloc[ref] {
			if lock, _, ok := e.guardOf(pt, st, fa.Field, ref); ok {
				e.guardObl(i, R, lock, typeShort(pt)+"."+st.Field(fa.Field).Name(), true, ref)
			}
		}
	}
	if ia, ok := i.Addr.(*ssa.IndexAddr); ok {
		if t, ok := e.taint[ia.X]; ok {
			e.guardObl(i, R, t[0], t[1]+"[]", true)
		}
		e.invContainerStoreHook(ia.X)
	}
}

// invContainerStoreHook: an element of a slice or map that was loaded from a field an invariant talks
// about is written: the owning object has to satisfy its invariant when control leaves.
func (e *enc) invContainerStoreHook(c ssa.Value) {
	if u, ok := c.(*ssa.UnOp); ok {
		if fa, ok := u.X.(*ssa.FieldAddr); ok {
			e.invStoreHook(fa)
		}
	}
}

func (e *enc) mapWriteHook(b *ssa.BasicBlock, ins ssa.Instruction, m string) {
	var mv ssa.Value
	switch x := ins.(type) {
	case *ssa.MapUpdate:
		mv = x.Map
	case ssa.CallInstruction:
		if len(x.Common().Args) > 0 {
			mv = x.Common().Args[0]
		}
	}
	if t, ok := e.taint[mv]; ok {
		e.guardObl(ins, e.reach[b], t[0], t[1]+"[]", true)
	}
	if mv != nil {
		e.invContainerStoreHook(mv)
	}
}

// containerReadHook: Lookup / Range / element load on a container that lives in a guarded field.
func (e *enc) containerReadHook(b *ssa.BasicBlock, ins ssa.Instruction, c ssa.Value) {
	if t, ok := e.taint[c]; ok {
		e.guardObl(ins, e.reach[b], t[0], t[1]+"[]", false)
	}
}

var syncLockCalls = map[string]string{
	"(*sync.Mutex).Lock": "lock", "(*sync.RWMutex).Lock": "lock",
	"(*sync.Mutex).Unlock": "unlock", "(*sync.RWMutex).Unlock": "unlock",
	"(*sync.RWMutex).RLock": "rlock", "(*sync.RWMutex).RUnlock": "runlock",
	"(*sync.Cond).Wait": "wait", "(*sync.Cond).Signal": "signal", "(*sync.Cond).Broadcast": "signal",
}

// syncCall encodes the sync primitives natively. Returns true if the call was handled.
func (e *enc) syncCall(ins ssa.Instruction, key string, args []string, argVals []ssa.Value, R string) bool {
	kind, ok := syncLockCalls[key]
	if !ok {
		return false
	}
	m := args[0]
	if !e.localAlloc[m] {
		e.addI("safe", "nil", ins, R, fmt.Sprintf("(not (= %s 0))", m))
	}
	held := func() string { return fmt.Sprintf("(select %s %s)", e.heldArr("G_held"), m) }
	rheld := func() string { return fmt.Sprintf("(select %s %s)", e.heldArr("G_rheld"), m) }
	switch kind {
	case "lock":
		if strings.Contains(key, "RWMutex") {
			e.addI("lock", "no-self-deadlock", ins, R, fmt.Sprintf("(and (not %s) (not %s))", held(), rheld()))
		} else {
			e.addI("lock", "no-self-deadlock", ins, R, fmt.Sprintf("(not %s)", held()))
		}
		e.interference()
		e.setHeld("G_held", m, true)
		e.lockStates = append(e.lockStates, e.heap.clone())
		e.lockUses = append(e.lockUses, lockUse{m, "G_held"})
	case "unlock":
		e.addI("lock", "unlock-held", ins, R, held())
		e.setHeld("G_held", m, false)
		e.lockUses = append(e.lockUses, lockUse{m, "G_held"})
	case "rlock":
		e.addI("lock", "no-self-deadlock", ins, R, fmt.Sprintf("(not %s)", held()))
		e.interference()
		e.setHeld("G_rheld", m, true)
		e.lockStates = append(e.lockStates, e.heap.clone())
		e.lockUses = append(e.lockUses, lockUse{m, "G_rheld"})
	case "runlock":
		e.addI("lock", "unlock-held", ins, R, rheld())
		e.setHeld("G_rheld", m, false)
		e.lockUses = append(e.lockUses, lockUse{m, "G_rheld"})
	case "wait", "signal":
		// c.L is an interface holding the *Mutex / *RWMutex
		condT := argVals[0].Type().Underlying().(*types.Pointer).Elem()
		cst := condT.Underlying().(*types.Struct)
		var lterm string
		for i := 0; i < cst.NumFields(); i++ {
			if cst.Field(i).Name() == "L" {
				l := e.structFieldLoc(m, condT, cst, i)
				lterm = "(iptr " + e.load(l) + ")"
			}
		}
		if lterm == "" {
			return false
		}
		hl := fmt.Sprintf("(select %s %s)", e.heldArr("G_held"), lterm)
		if kind == "wait" {
			e.addI("cond", "wait-holds-L", ins, R, hl)
			e.condWaitCheck(ins, m, lterm, R)
			e.interference() // the lock is released while waiting
		} else {
			e.addI("cond", "signal-under-L", ins, R, hl)
		}
	}
	return true
}

// interference: other threads may have changed everything shared; fields declared stable keep their value.
func (e *enc) interference() {
	e.havocHeap(func(a string) bool { return e.w.stableArr(a) })
	if e.rec != nil && e.curInstr != nil {
		e.rec.writes[e.curInstr] = append(e.rec.writes[e.curInstr], "*")
	}
}

// condWaitCheck: structural part of the wait discipline, see cond.go.
func (e *enc) condWaitCheck(ins ssa.Instruction, c, lterm, R string) {}

func (e *enc) callHook(ins ssa.Instruction, key string, callee *ssa.Function, R string) {
	if len(e.invTouched) > 0 {
		if callee == nil || callee.Pkg != nil && e.w.InRepo[callee.Pkg] {
			e.invLeaveObls(ins, R)
			e.invTouched = nil
		}
	}
}

// returnHook: lock balance — every lock this function touched is in the state it was found in.
func (e *enc) returnHook(b *ssa.BasicBlock, r *ssa.Return, R string) {
	for _, rv := range r.Results {
		e.escapeObl(r, R, rv, "returned")
	}
	e.invReturnObls(r, R)
	if e.fc != nil && e.fc.Opts["lock-effect"] != "" {
		return // the contract's ensures describe how the lock set changes (e.g. a deferred release)
	}
	seen := map[string]bool{}
	for _, u := range e.lockUses {
		k := u.arr + u.term
		if seen[k] {
			continue
		}
		seen[k] = true
		e.harr(u.arr, "(Array Ref Bool)")
		goal := fmt.Sprintf("(= (select %s %s) (select %s %s))", e.hname(u.arr), u.term, e.hnameIn(u.arr, e.entry), u.term)
		e.addI("lock", "balance", r, R, goal)
	}
}

// ---- type invariants (one-object invariants over the object's own fields) ----

func selfFields(ex CExpr, out map[string]bool) {
	switch x := ex.(type) {
	case *CSel:
		if id, ok := x.X.(*CIdent); ok && id.Name == "self" {
			out[x.Sel] = true
		}
		selfFields(x.X, out)
	case *CIndex:
		selfFields(x.X, out)
		selfFields(x.I, out)
	case *CSlice:
		selfFields(x.X, out)
	case *CCall:
		for _, a := range x.Args {
			selfFields(a, out)
		}
	case *CUnary:
		selfFields(x.X, out)
	case *CBinary:
		selfFields(x.X, out)
		selfFields(x.Y, out)
	case *CQuant:
		selfFields(x.Body, out)
	}
}

func (e *enc) typeDeclOf(pt types.Type) *TypeDecl {
	n, ok := pt.(*types.Named)
	if !ok || n.Obj().Pkg() == nil {
		return nil
	}
	return e.w.CS.Types[n.Obj().Pkg().Name()+"."+n.Obj().Name()]
}

// invTerm instantiates invariant c of type pt for the object at ref in state st.
func (e *enc) invTerm(c Clause, pt types.Type, ref string, st hstate) (string, error) {
	env := e.newEnv()
	if n, ok := pt.(*types.Named); ok && n.Obj().Pkg() != nil {
		env.pkg = n.Obj().Pkg().Name()
	}
	env.st, env.old = st, e.entry
	env.vars["self"] = cval{ref, "Ref", types.NewPointer(pt)}
	return env.boolTerm(c.Expr)
}

// invLoadHook: loading a field that an invariant of the type talks about brings the invariant in.
func (e *enc) invLoadHook(b *ssa.BasicBlock, fa *ssa.FieldAddr) {
	pt := fa.X.Type().Underlying().(*types.Pointer).Elem()
	td := e.typeDeclOf(pt)
	if td == nil || len(td.Invs) == 0 {
		return
	}
	ref := e.val(fa.X)
	if e.localAlloc[ref] || e.invBusy {
		return
	}
	fname := pt.Underlying().(*types.Struct).Field(fa.Field).Name()
	for _, c := range td.Invs {
		fs := map[string]bool{}
		selfFields(c.Expr, fs)
		if !fs[fname] {
			continue
		}
		k := c.Label + "@" + ref + fmt.Sprint(e.heap)
		if e.invDone[k] {
			continue
		}
		e.invDone[k] = true
		if e.usedTypeInvs == nil {
			e.usedTypeInvs = map[string]bool{}
		}
		e.usedTypeInvs[td.Pkg+"."+td.Type] = true
		e.invBusy = true
		t, err := e.invTerm(c, pt, ref, e.heap)
		e.invBusy = false
		if err != nil {
			e.contractError(c, err)
			continue
		}
		e.assumeAt(e.reach[b], fmt.Sprintf("(=> (not (= %s 0)) %s)", ref, t))
	}
}

// invStoreHook remembers objects whose invariant fields were written; checked at every return.
func (e *enc) invStoreHook(fa *ssa.FieldAddr) {
	pt := fa.X.Type().Underlying().(*types.Pointer).Elem()
	td := e.typeDeclOf(pt)
	if td == nil || len(td.Invs) == 0 {
		return
	}
	fname := pt.Underlying().(*types.Struct).Field(fa.Field).Name()
	for _, c := range td.Invs {
		fs := map[string]bool{}
		selfFields(c.Expr, fs)
		if fs[fname] {
			ref := e.val(fa.X)
			for _, t := range e.invTouched {
				if t.ref == ref {
					return
				}
			}
			e.invTouched = append(e.invTouched, invObj{ref, pt, e.reach[fa.Block()]})
			return
		}
	}
}

type invObj struct {
	ref string
	pt  types.Type
	at  string // reach predicate of the block that wrote the object
}

// invLeaveObls: control leaves the function (return or call): every object whose invariant fields
// were written since the last such point must satisfy its invariant.
func (e *enc) invLeaveObls(ins ssa.Instruction, R string) {
	for _, t := range e.invTouched {
		td := e.typeDeclOf(t.pt)
		for _, c := range td.Invs {
			term, err := e.invTerm(c, t.pt, t.ref, e.heap)
			if err != nil {
				e.contractError(c, err)
				continue
			}
			e.addI("inv", "type:"+td.Type+":"+c.Label, ins, R, fmt.Sprintf("(=> %s %s)", t.at, term))
		}
	}
}

func (e *enc) invReturnObls(r *ssa.Return, R string) { e.invLeaveObls(r, R) }

// ---- containers without nil values (type T vals-nonnil f / global g vals-nonnil) ----

// valsNonnilOf: v is (a load of) a field or global whose container is declared to hold no nil values.
func (e *enc) valsNonnilOf(v ssa.Value) (string, bool) {
	u, ok := v.(*ssa.UnOp)
	if !ok {
		return "", false
	}
	switch a := u.X.(type) {
	case *ssa.FieldAddr:
		pt := a.X.Type().Underlying().(*types.Pointer).Elem()
		td := e.typeDeclOf(pt)
		if td == nil {
			return "", false
		}
		fname := pt.Underlying().(*types.Struct).Field(a.Field).Name()
		for _, f := range td.ValsNonnil {
			if f == fname {
				return td.Type + "." + fname, true
			}
		}
	case *ssa.Global:
		if d := e.w.CS.Globals[a.Pkg.Pkg.Name()+"."+a.Name()]; strings.Contains(d, "vals-nonnil") {
			return a.Name(), true
		}
	}
	return "", false
}

func nonnilTerm(sort, v string) string {
	switch sort {
	case "Ref":
		return fmt.Sprintf("(not (= %s 0))", v)
	case "Iface":
		return fmt.Sprintf("(not (= %s INil))", v)
	case "Slice":
		return "true"
	}
	return ""
}

// invWriterFields: the fields of the type its invariants talk about.
func invWriterFields(td *TypeDecl) map[string]bool {
	fs := map[string]bool{}
	for _, c := range td.Invs {
		selfFields(c.Expr, fs)
	}
	return fs
}

// touchesField: the function stores to one of the fields of an object of the declared type, or into a
// map / slice loaded from one (writesOnly), or accesses such a field in any way.
func touchesField(f *ssa.Function, td *TypeDecl, fields map[string]bool, writesOnly bool) bool {
	if len(fields) == 0 {
		return false
	}
	isField := func(v ssa.Value) bool {
		fa, ok := v.(*ssa.FieldAddr)
		if !ok {
			return false
		}
		pt, ok := fa.X.Type().Underlying().(*types.Pointer)
		if !ok {
			return false
		}
		n, ok := pt.Elem().(*types.Named)
		if !ok || n.Obj().Pkg() == nil || n.Obj().Pkg().Name() != td.Pkg || n.Obj().Name() != td.Type {
			return false
		}
		st, ok := n.Underlying().(*types.Struct)
		return ok && fields[st.Field(fa.Field).Name()]
	}
	loaded := func(v ssa.Value) bool {
		u, ok := v.(*ssa.UnOp)
		return ok && isField(u.X)
	}
	for _, b := range f.Blocks {
		for _, ins := range b.Instrs {
			if !writesOnly {
				if fa, ok := ins.(*ssa.FieldAddr); ok && isField(fa) {
					return true
				}
				continue
			}
			switch x := ins.(type) {
			case *ssa.Store:
				if isField(x.Addr) {
					return true
				}
				if ia, ok := x.Addr.(*ssa.IndexAddr); ok && loaded(ia.X) {
					return true
				}
			case *ssa.MapUpdate:
				if loaded(x.Map) {
					return true
				}
			case ssa.CallInstruction:
				if bi, ok := x.Common().Value.(*ssa.Builtin); ok && bi.Name() == "delete" && len(x.Common().Args) > 0 && loaded(x.Common().Args[0]) {
					return true
				}
			}
		}
	}
	return false
}
