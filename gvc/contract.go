package main

// Contract files: comment-only Go files (build tag verif) whose //@ lines carry
// contracts, plus /verif/spec/*.gvc files for trusted library contracts.

import (
	"bufio"
	"fmt"
	"os"
	"path/filepath"
	"regexp"
	"sort"
	"strconv"
	"strings"
)

type Clause struct {
	Label string
	Expr  CExpr
	Src   string
	File  string
	Line  int
}

type LoopContract struct {
	Invariants []Clause
	Entry      []Clause // must hold when the loop is entered (not inductive)
	Step       []Clause // relation between an iteration's start (plain names) and its end (next(e)), on every back edge
	Decreases  *Clause
}

type FuncContract struct {
	Key          string // e.g. engine.(*RuleMatcherKey).match
	Pkg          string // package name the contract was written in
	Ints         string // "", "bv64", "math"
	Strs         string // "", "theory", "opaque"
	Requires     []Clause
	Assumes      []Clause // assumed at entry, never checked at call sites; listed as assumptions
	Ensures      []Clause
	Loops        map[int]*LoopContract
	Assigns      []string // nil = unspecified (*); ["nothing"]; list of heap array patterns
	HasAssigns   bool
	Props        []string
	Core         bool
	Trusted      bool // extern / trusted: body not checked
	TrustedFrame bool // the assigns clause is assumed, not checked against the body (listed)
	TrustedExtra bool // this block only adds trusted facts for callers of a function checked elsewhere
	Extra        *FuncContract
	Pure         bool
	Concurrent   bool // concurrent_entry
	Replay       string
	Opts         map[string]string
	Asserts      []SiteClause
	File         string
	Line         int
	Used         bool
}

type SiteClause struct {
	Kind string // assert | assume
	Site string // e.g. "call 1 of strings.Index", "store ri.rules"
	Clause
}

type SpecFunc struct {
	Name   string
	Params [][2]string // name, type string
	Ret    string
	Body   CExpr // nil for uninterpreted
	Pkg    string
	Src    string
	Reads  []string // heap array patterns the (uninterpreted) function depends on: one function symbol per state of these arrays
}

type TypeDecl struct {
	Pkg, Type        string
	Nonnil           []string
	GuardedBy        map[string]string // field -> lock field
	Invs             []Clause
	Immutable        []string
	Stable           []string // not changed by other threads once the object is shared (assumption; writes restricted)
	NonnilElems      bool
	NonnilElemsField string
	Frozen           []string // like stable, and no call changes it on an object that existed before the call: written only by the declaring package while the object is under construction (writers checked)
	ValsNonnil       []string // containers (maps, slices) in these fields hold no nil values
	Writers          []WritersDecl
}

// WritersDecl: only the listed functions may store to the field of an existing object.
type WritersDecl struct {
	Field string
	Funcs []string
	Props []string
	File  string
	Line  int
}

type Axiom struct {
	Clause
	Pkg   string
	Lemma bool
	Using []string
}

// GlobalInv: a fact about package-level variables which only package initialisers write. It is
// proved as a postcondition of the package initialiser and assumed on entry of every other
// function of the package that reads one of the variables (and is not reached from the initialiser).
type GlobalInv struct {
	Clause
	Pkg   string
	Props []string
}

type Contracts struct {
	GlobalInvs    []*GlobalInv
	Funcs         map[string]*FuncContract
	Ifaces        map[string]*FuncContract // key: pkg.Iface.method
	FuncTypes     map[string]*FuncContract // key: pkg.FuncType
	pendingExtras []*FuncContract
	Specs         map[string]*SpecFunc
	Types         map[string]*TypeDecl // key pkg.Type
	Axioms        []*Axiom
	Conds         []*CondDecl
	Globals       map[string]string // pkg.var -> declaration (e.g. "guarded_by pkg.lock", "atomic", "init_only")
	// closed interfaces: pkg.Iface -> the only dynamic types its values ever have (checked: every
	// conversion to the interface in the program starts from one of them)
	IfaceTypes   map[string][]string
	IfaceTypesAt map[string]string
	Files        []string
	Errors       []string
}

func newContracts() *Contracts {
	return &Contracts{Funcs: map[string]*FuncContract{}, Ifaces: map[string]*FuncContract{}, FuncTypes: map[string]*FuncContract{}, Specs: map[string]*SpecFunc{},
		Types: map[string]*TypeDecl{}, Globals: map[string]string{}, IfaceTypes: map[string][]string{}, IfaceTypesAt: map[string]string{}}
}

var labelRe = regexp.MustCompile(`^([A-Za-z][A-Za-z0-9_\-]*):\s+(.*)$`)
var pkgRe = regexp.MustCompile(`^package\s+(\w+)`)

func (cs *Contracts) errf(file string, line int, f string, a ...interface{}) {
	cs.Errors = append(cs.Errors, fmt.Sprintf("%s:%d: %s", file, line, fmt.Sprintf(f, a...)))
}

func (cs *Contracts) parseClause(file string, line int, text string) (Clause, bool) {
	c := Clause{File: file, Line: line}
	if m := labelRe.FindStringSubmatch(text); m != nil {
		c.Label = m[1]
		text = m[2]
	}
	c.Src = text
	ex, err := parseCExpr(text)
	if err != nil {
		cs.errf(file, line, "%v", err)
		return c, false
	}
	c.Expr = ex
	return c, true
}

// LoadFile reads one contract file.
func (cs *Contracts) LoadFile(path string) {
	f, err := os.Open(path)
	if err != nil {
		cs.errf(path, 0, "%v", err)
		return
	}
	defer f.Close()
	cs.Files = append(cs.Files, path)
	sc := bufio.NewScanner(f)
	sc.Buffer(make([]byte, 1<<20), 1<<20)
	pkg := ""
	var cur *FuncContract
	var curType *TypeDecl
	var curCond *CondDecl
	lineNo := 0
	pending := ""
	pendingLine := 0
	for sc.Scan() {
		lineNo++
		raw := sc.Text()
		if m := pkgRe.FindStringSubmatch(raw); m != nil && pkg == "" {
			pkg = m[1]
			continue
		}
		t := strings.TrimSpace(raw)
		if !strings.HasPrefix(t, "//@") {
			continue
		}
		t = strings.TrimSpace(strings.TrimPrefix(t, "//@"))
		if i := strings.Index(t, " //"); i >= 0 && !strings.Contains(t[:i], "\"") {
			t = strings.TrimSpace(t[:i])
		}
		if pending != "" {
			t = pending + " " + t
			pending = ""
		} else {
			pendingLine = lineNo
		}
		if strings.HasSuffix(t, "\\") {
			pending = strings.TrimSuffix(t, "\\")
			continue
		}
		if t == "" {
			continue
		}
		ln := pendingLine
		word, rest := t, ""
		if i := strings.IndexAny(t, " \t"); i >= 0 {
			word, rest = t[:i], strings.TrimSpace(t[i+1:])
		}
		switch word {
		case "package":
			pkg = rest
		case "func", "extern", "iface", "functype":
			name := rest
			if i := strings.Index(name, " "); i >= 0 && !strings.HasPrefix(name, "(") {
				name = name[:i]
			}
			// forms: "(*T).m", "f", "f$1", "pkg.f" (extern), "(*pkg.T).m"
			name = strings.TrimSpace(name)
			if i := strings.Index(name, ")."); i >= 0 {
				// keep "(*T).m" plus optional trailing signature stripped
				j := i + 2
				for j < len(name) && (isIdentChar(name[j]) || name[j] == '$') {
					j++
				}
				name = name[:j]
			} else if i := strings.IndexAny(name, "( "); i >= 0 {
				name = name[:i]
			}
			key := name
			if word == "func" {
				key = qualify(pkg, name)
			}
			cur = &FuncContract{Key: key, Pkg: pkg, Loops: map[int]*LoopContract{}, Opts: map[string]string{}, File: path, Line: ln}
			curType = nil
			if word == "extern" {
				cur.Trusted = true
			}
			if word == "functype" {
				// contract of a named function type: honoured by every function of the package with that
				// signature, relied on where a value of the type is called
				cur.Key = pkg + "." + name
				cs.FuncTypes[cur.Key] = cur
			} else if word == "iface" {
				key = pkg + "." + name
				if strings.Count(name, ".") >= 2 {
					key = name
				}
				cur.Key = key
				cs.Ifaces[key] = cur
			} else {
				if prev, dup := cs.Funcs[key]; dup && word == "extern" && !prev.Trusted {
					// an extern block for a function that is under contract in its own package: its clauses are
					// additional trusted facts for callers (listed), the body is checked against the func block
					cur.TrustedExtra = true
					prev.Extra = cur
					cs.pendingExtras = append(cs.pendingExtras, prev)
				} else if dup && word == "func" && prev.Trusted && prev.Pkg != cur.Pkg {
					cur.Extra = prev
					prev.TrustedExtra = true
					prev.Trusted = false
					cs.Funcs[key] = cur
					cs.pendingExtras = append(cs.pendingExtras, cur)
				} else if prev, dup := cs.Funcs[key]; dup && prev.Pkg == cur.Pkg && word == "func" && !prev.Trusted {
					// a later block for the same function adds clauses (one block per property is easier to read)
					cur = prev
				} else if dup {
					cs.errf(path, ln, "duplicate contract for %s", key)
				} else {
					cs.Funcs[key] = cur
				}
			}
		case "spec":
			cur, curType = nil, nil
			cs.parseSpec(path, ln, pkg, rest)
		case "axiom", "lemma":
			cur, curType = nil, nil
			text := rest
			var using []string
			if i := strings.Index(text, " using "); i >= 0 && word == "lemma" {
				for _, u := range strings.Split(text[i+7:], ";") {
					using = append(using, strings.TrimSpace(u))
				}
				text = text[:i]
			}
			c, ok := cs.parseClause(path, ln, text)
			if ok {
				cs.Axioms = append(cs.Axioms, &Axiom{Clause: c, Pkg: pkg, Lemma: word == "lemma", Using: using})
			}
		case "global-invariant":
			// global-invariant C20[,C06] label: expr
			cur, curType = nil, nil
			parts := strings.SplitN(rest, " ", 2)
			if len(parts) < 2 {
				cs.errf(path, ln, "global-invariant <properties> label: expr")
				continue
			}
			c, ok := cs.parseClause(path, ln, parts[1])
			if ok {
				gi := &GlobalInv{Clause: c, Pkg: pkg, Props: strings.Split(parts[0], ",")}
				cs.GlobalInvs = append(cs.GlobalInvs, gi)
				key := pkg + ".init"
				fc := cs.Funcs[key]
				if fc == nil {
					fc = &FuncContract{Key: key, Pkg: pkg, Loops: map[int]*LoopContract{}, Opts: map[string]string{}, File: path, Line: ln}
					cs.Funcs[key] = fc
				}
				for _, p := range gi.Props {
					has := false
					for _, q := range fc.Props {
						has = has || q == p
					}
					if !has {
						fc.Props = append(fc.Props, p)
					}
				}
				fc.Ensures = append(fc.Ensures, c)
			}
		case "type":
			cur = nil
			parts := strings.SplitN(rest, " ", 3)
			if len(parts) < 3 {
				cs.errf(path, ln, "bad type declaration %q", rest)
				continue
			}
			key := pkg + "." + parts[0]
			td := cs.Types[key]
			if td == nil {
				td = &TypeDecl{Pkg: pkg, Type: parts[0], GuardedBy: map[string]string{}}
				cs.Types[key] = td
			}
			curType = td
			switch parts[1] {
			case "nonnil":
				for _, f := range strings.Split(parts[2], ",") {
					td.Nonnil = append(td.Nonnil, strings.TrimSpace(f))
				}
			case "immutable":
				for _, f := range strings.Split(parts[2], ",") {
					td.Immutable = append(td.Immutable, strings.TrimSpace(f))
				}
			case "vals-nonnil":
				for _, f := range strings.Split(parts[2], ",") {
					td.ValsNonnil = append(td.ValsNonnil, strings.TrimSpace(f))
				}
			case "writers":
				// writers <field>: f1, f2 | C10 C02
				spec := parts[2]
				props := ""
				if i := strings.Index(spec, "|"); i >= 0 {
					props, spec = strings.TrimSpace(spec[i+1:]), strings.TrimSpace(spec[:i])
				}
				ff := strings.SplitN(spec, ":", 2)
				if len(ff) != 2 {
					cs.errf(path, ln, "bad writers clause %q", rest)
					continue
				}
				wd := WritersDecl{Field: strings.TrimSpace(ff[0]), Props: strings.Fields(props), File: path, Line: ln}
				for _, f := range strings.Split(ff[1], ",") {
					if strings.TrimSpace(f) != "" {
						wd.Funcs = append(wd.Funcs, qualify(pkg, strings.TrimSpace(f)))
					}
				}
				td.Writers = append(td.Writers, wd)
			case "stable":
				for _, f := range strings.Split(parts[2], ",") {
					td.Stable = append(td.Stable, strings.TrimSpace(f))
				}
			case "nonnil-elems":
				// slices of pointers to this type never hold nil (checked where elements are appended)
				td.NonnilElems = true
				td.NonnilElemsField = strings.TrimSpace(parts[2])
			case "frozen":
				for _, f := range strings.Split(parts[2], ",") {
					td.Stable = append(td.Stable, strings.TrimSpace(f))
					td.Frozen = append(td.Frozen, strings.TrimSpace(f))
				}
			case "guarded_by":
				lf := strings.SplitN(parts[2], ":", 2)
				if len(lf) != 2 {
					cs.errf(path, ln, "bad guarded_by %q", rest)
					continue
				}
				for _, f := range strings.Split(lf[1], ",") {
					td.GuardedBy[strings.TrimSpace(f)] = strings.TrimSpace(lf[0])
				}
			case "invariant":
				c, ok := cs.parseClause(path, ln, parts[2])
				if ok {
					td.Invs = append(td.Invs, c)
				}
			default:
				cs.errf(path, ln, "unknown type clause %q", parts[1])
			}
		case "iface-types":
			cur, curType = nil, nil
			nt := strings.SplitN(rest, ":", 2)
			if len(nt) != 2 {
				cs.errf(path, ln, "bad iface-types declaration %q", rest)
				continue
			}
			k := pkg + "." + strings.TrimSpace(nt[0])
			for _, t := range strings.Split(nt[1], ",") {
				cs.IfaceTypes[k] = append(cs.IfaceTypes[k], strings.TrimSpace(t))
			}
			cs.IfaceTypesAt[k] = fmt.Sprintf("%s:%d", path, ln)
		case "cond":
			cur, curType = nil, nil
			tf := strings.SplitN(strings.TrimSpace(rest), ".", 2)
			if len(tf) != 2 {
				cs.errf(path, ln, "bad cond declaration %q", rest)
				continue
			}
			curCond = &CondDecl{Pkg: pkg, Type: tf[0], Field: tf[1], File: path, Line: ln}
			cs.Conds = append(cs.Conds, curCond)
		case "readers", "writers", "consumers":
			if curCond == nil {
				cs.errf(path, ln, "%s outside a cond block", word)
				continue
			}
			var items []string
			for _, it := range strings.Split(rest, ",") {
				if strings.TrimSpace(it) != "" {
					items = append(items, strings.TrimSpace(it))
				}
			}
			switch word {
			case "readers":
				curCond.Readers = append(curCond.Readers, items...)
				curCond.ReaderGroups = append(curCond.ReaderGroups, items)
			case "writers":
				curCond.Writers = append(curCond.Writers, items...)
			case "consumers":
				curCond.Consumers = append(curCond.Consumers, items...)
			}
		case "global":
			cur, curType = nil, nil
			parts := strings.SplitN(rest, " ", 2)
			if len(parts) == 2 {
				cs.Globals[pkg+"."+parts[0]] = parts[1]
			}
		default:
			if cur == nil {
				_ = curType
				cs.errf(path, ln, "clause %q outside a func block", word)
				continue
			}
			cs.funcClause(cur, path, ln, word, rest)
		}
	}
}

func isIdentChar(c byte) bool {
	return c == '_' || c >= '0' && c <= '9' || c >= 'a' && c <= 'z' || c >= 'A' && c <= 'Z'
}

func qualify(pkg, name string) string {
	if strings.HasPrefix(name, "(") {
		// (*T).m or (T).m
		inner := name[1:strings.Index(name, ")")]
		rest := name[strings.Index(name, ")")+1:]
		star := ""
		if strings.HasPrefix(inner, "*") {
			star = "*"
			inner = inner[1:]
		}
		if strings.Contains(inner, ".") {
			return name
		}
		return pkg + ".(" + star + inner + ")" + rest
	}
	if strings.Contains(name, ".") {
		return name
	}
	return pkg + "." + name
}

func (cs *Contracts) funcClause(cur *FuncContract, path string, ln int, word, rest string) {
	switch word {
	case "ints":
		cur.Ints = rest
	case "strings":
		cur.Strs = rest
	case "requires":
		if c, ok := cs.parseClause(path, ln, rest); ok {
			cur.Requires = append(cur.Requires, c)
		}
	case "assumes":
		if c, ok := cs.parseClause(path, ln, rest); ok {
			cur.Assumes = append(cur.Assumes, c)
		}
	case "ensures":
		if c, ok := cs.parseClause(path, ln, rest); ok {
			cur.Ensures = append(cur.Ensures, c)
		}
	case "loop":
		parts := strings.SplitN(rest, " ", 3)
		n, err := strconv.Atoi(parts[0])
		if err != nil || len(parts) < 3 {
			cs.errf(path, ln, "bad loop clause %q", rest)
			return
		}
		lc := cur.Loops[n]
		if lc == nil {
			lc = &LoopContract{}
			cur.Loops[n] = lc
		}
		c, ok := cs.parseClause(path, ln, parts[2])
		if !ok {
			return
		}
		switch parts[1] {
		case "invariant":
			lc.Invariants = append(lc.Invariants, c)
		case "entry":
			lc.Entry = append(lc.Entry, c)
		case "step":
			lc.Step = append(lc.Step, c)
		case "decreases":
			lc.Decreases = &c
		default:
			cs.errf(path, ln, "unknown loop clause %q", parts[1])
		}
	case "assigns":
		cur.HasAssigns = true
		for _, a := range strings.Split(rest, ",") {
			cur.Assigns = append(cur.Assigns, strings.TrimSpace(a))
		}
	case "property":
		for _, p := range strings.Fields(rest) {
			if p == "core" {
				cur.Core = true
			} else {
				cur.Props = append(cur.Props, p)
			}
		}
	case "trusted":
		cur.Trusted = true
	case "trusted-frame":
		cur.TrustedFrame = true
	case "pure":
		cur.Pure = true
		cur.HasAssigns = true
		cur.Assigns = []string{"nothing"}
	case "concurrent_entry":
		cur.Concurrent = true
	case "replay":
		cur.Replay = rest
	case "opt":
		kv := strings.SplitN(rest, " ", 2)
		if len(kv) == 2 {
			cur.Opts[kv[0]] = kv[1]
		} else {
			cur.Opts[kv[0]] = "true"
		}
	case "assert", "assume", "finding", "prove":
		// prove at <site>: label: expr - an intermediate lemma: asserted at the site and, once proved there,
		// available to everything downstream (assert alone is only checked).
		// finding at <site>: label: expr - a recorded defect: asserted (the obligation fails and is matched
		// with known_findings.json by its name) and then assumed, so that everything downstream is checked
		// as if the defect were repaired and a different violation is still reported.
		// assert <label>: at <site>: expr    |   assert label: expr (site = label lookup by obligation point)
		site := ""
		text := rest
		if m := regexp.MustCompile(`^at ([^:]+):\s+(.*)$`).FindStringSubmatch(text); m != nil {
			site, text = strings.TrimSpace(m[1]), m[2]
		}
		if c, ok := cs.parseClause(path, ln, text); ok {
			cur.Asserts = append(cur.Asserts, SiteClause{Kind: word, Site: site, Clause: c})
		}
	default:
		cs.errf(path, ln, "unknown clause %q", word)
	}
}

var specRe = regexp.MustCompile(`^(func|uninterp)\s+(\w+)\s*\(([^)]*)\)\s*([^=]*?)\s*(=\s*(.*))?$`)

func (cs *Contracts) parseSpec(path string, ln int, pkg, rest string) {
	m := specRe.FindStringSubmatch(rest)
	if m == nil {
		cs.errf(path, ln, "bad spec declaration %q", rest)
		return
	}
	sf := &SpecFunc{Name: m[2], Ret: strings.TrimSpace(m[4]), Pkg: pkg, Src: rest}
	if i := strings.Index(sf.Ret, " reads "); i >= 0 {
		for _, r := range strings.Split(sf.Ret[i+7:], ",") {
			sf.Reads = append(sf.Reads, strings.TrimSpace(r))
		}
		sf.Ret = strings.TrimSpace(sf.Ret[:i])
	}
	if strings.TrimSpace(m[3]) != "" {
		for _, p := range strings.Split(m[3], ",") {
			p = strings.TrimSpace(p)
			i := strings.Index(p, " ")
			if i < 0 {
				sf.Params = append(sf.Params, [2]string{fmt.Sprintf("a%d", len(sf.Params)), p})
			} else {
				sf.Params = append(sf.Params, [2]string{p[:i], strings.TrimSpace(p[i+1:])})
			}
		}
	}
	if m[1] == "func" {
		if m[6] == "" {
			cs.errf(path, ln, "spec func %s without body", sf.Name)
			return
		}
		ex, err := parseCExpr(m[6])
		if err != nil {
			cs.errf(path, ln, "%v", err)
			return
		}
		sf.Body = ex
	}
	if _, dup := cs.Specs[sf.Name]; dup {
		cs.errf(path, ln, "duplicate spec func %s", sf.Name)
	}
	cs.Specs[sf.Name] = sf
}

// LoadAll reads every contracts_verif.go under repo and every *.gvc under specDir.
func LoadContracts(repo, specDir string) *Contracts {
	cs := newContracts()
	var files []string
	filepath.Walk(repo, func(p string, info os.FileInfo, err error) error {
		if err != nil {
			return nil
		}
		if info.IsDir() && (info.Name() == ".git" || info.Name() == "examples") {
			return filepath.SkipDir
		}
		if !info.IsDir() && info.Name() == "contracts_verif.go" {
			files = append(files, p)
		}
		return nil
	})
	sort.Strings(files)
	for _, f := range files {
		cs.LoadFile(f)
	}
	gl, _ := filepath.Glob(filepath.Join(specDir, "*.gvc"))
	sort.Strings(gl)
	for _, f := range gl {
		cs.LoadFile(f)
	}
	// a function checked in its own package keeps the (trusted) frame another package declared for it
	for _, fc := range cs.pendingExtras {
		if x := fc.Extra; x != nil {
			if x.TrustedFrame && !fc.HasAssigns {
				fc.TrustedFrame, fc.HasAssigns, fc.Assigns = true, x.HasAssigns, x.Assigns
			}
		}
	}
	return cs
}
