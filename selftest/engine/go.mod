module github.com/krotik/ecal

go 1.12
