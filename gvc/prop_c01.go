package main

import (
	"regexp"
	"strings"
	"time"
)

func init() {
	registerProp(&PropSpec{ID: "C01", Title: "Exactly the matching, in-scope, unsuppressed rules fire once per event", MinObls: 30,
		Classes:     regexp.MustCompile(`^(safe:(hash|index|slice|shift)|post|pre|assert|inv|dec|lock|frame)`),
		TrustedBase: []string{"64-bit vector semantics for the rule bit masks (shifts, masks, overflow exact)", "regexp.MatchString as a function of (pattern, text)"},
		Assumptions: []string{"strings.Split / sort.Sort contracts (sort.Sort permutes)", "one task runs ProcessEvent sequentially (C02/C09)",
			"the trigger cache key (fmt %q of the kind) is an injective function of the kind, and reachability (trigAt) depends on an event only through its kind",
			"trigAt / scopeAllows are read as functions of the index / scope, which the functions using them do not modify (their frames are checked); rules are only added while the processor is stopped",
			"events handed to the processor are non-nil"},
		NotDecided: []string{"that the recursive kind tree built by addRuleAtLevel files every pattern under its own path, and that matchAtLevel finds every rule filed under a reachable node (completeness of the kind walk: an inductive multiset invariant over an interface-typed heap tree); proved instead: the pre-check reaches every node the full match reaches (trigAt), rules are returned once, the leaf bit logic, and the scope / suppression / execution loops step by step",
			"RuleScope.IsAllowed (most specific defined prefix wins): trusted definition of scopeAllows",
			"createRule (sink attributes -> Rule) in interpreter/rt_sink.go"}})
}

const c01ReplaySrc = `package engine

import (
	"fmt"
	"testing"
	"time"
)

func verifGuard(name string, f func()) {
	done := make(chan string, 1)
	go func() {
		defer func() {
			if r := recover(); r != nil {
				done <- fmt.Sprintf("PANIC %v", r)
			}
		}()
		f()
		done <- "ok"
	}()
	select {
	case r := <-done:
		fmt.Printf("REPLAY-CASE %s %s\n", name, r)
	case <-time.After(5 * time.Second):
		fmt.Printf("REPLAY-CASE %s HANG (no answer within 5s)\n", name)
	}
}

func TestVerifReplay(t *testing.T) {
	// many state rules on one kind: every one of them must match the event
	for _, n := range []int{63, 64, 65, 130} {
		n := n
		verifGuard(fmt.Sprintf("state-rules-%d", n), func() {
			idx := NewRuleIndex()
			for i := 0; i < n; i++ {
				idx.AddRule(&Rule{Name: fmt.Sprintf("r%d", i), KindMatch: []string{"a"}, ScopeMatch: []string{}, StateMatch: map[string]interface{}{"k": 1.0}})
			}
			got := idx.Match(NewEvent("e", []string{"a"}, map[interface{}]interface{}{"k": 1.0}))
			if len(got) != n {
				panic(fmt.Sprintf("WRONG: %d of %d rules matched", len(got), n))
			}
		})
	}
	// list / map values in rule state patterns and in event state
	verifGuard("statematch-list-value", func() {
		idx := NewRuleIndex()
		idx.AddRule(&Rule{Name: "r", KindMatch: []string{"a"}, ScopeMatch: []string{}, StateMatch: map[string]interface{}{"k": []interface{}{1.0}}})
	})
	verifGuard("event-state-list-value", func() {
		idx := NewRuleIndex()
		idx.AddRule(&Rule{Name: "r", KindMatch: []string{"a"}, ScopeMatch: []string{}, StateMatch: map[string]interface{}{"k": 1.0}})
		idx.Match(NewEvent("e", []string{"a"}, map[interface{}]interface{}{"k": []interface{}{1.0}}))
	})
	verifGuard("event-state-map-value", func() {
		idx := NewRuleIndex()
		idx.AddRule(&Rule{Name: "r", KindMatch: []string{"a"}, ScopeMatch: []string{}, StateMatch: map[string]interface{}{"k": 1.0}})
		idx.Match(NewEvent("e", []string{"a"}, map[interface{}]interface{}{"k": map[interface{}]interface{}{"x": 1.0}}))
	})
	// processor level: trigger cache, duplicates, self suppression
	procCase := func(name string, rules []*Rule, events []*Event, want []int) {
		verifGuard(name, func() {
			proc := NewProcessor(1)
			fired := map[string]int{}
			for _, r := range rules {
				r := r
				r.Action = func(p Processor, m Monitor, e *Event, tid uint64) error { fired[r.Name+"@"+e.Name()]++; return nil }
				proc.AddRule(r)
			}
			proc.Start()
			for i, e := range events {
				before := 0
				for _, n := range fired {
					before += n
				}
				proc.AddEventAndWait(e, nil)
				after := 0
				for _, n := range fired {
					after += n
				}
				if after-before != want[i] {
					proc.Finish()
					panic(fmt.Sprintf("WRONG: event %d (%v kind %v) ran %d rule actions, expected %d", i, e.Name(), e.Kind(), after-before, want[i]))
				}
			}
			proc.Finish()
		})
	}
	procCase("cache-same-name-other-kind", []*Rule{{Name: "r", KindMatch: []string{"a.b"}, ScopeMatch: []string{}}},
		[]*Event{NewEvent("x", []string{"zzz"}, nil), NewEvent("x", []string{"a", "b"}, nil)}, []int{0, 1})
	procCase("cache-same-kind-other-name", []*Rule{{Name: "r", KindMatch: []string{"a.b"}, ScopeMatch: []string{}}},
		[]*Event{NewEvent("x", []string{"a", "b"}, nil), NewEvent("y", []string{"a", "b"}, nil)}, []int{1, 1})
	procCase("rule-with-two-matching-patterns", []*Rule{{Name: "r", KindMatch: []string{"a.b", "a.*"}, ScopeMatch: []string{}}},
		[]*Event{NewEvent("x", []string{"a", "b"}, nil)}, []int{1})
	procCase("self-suppression", []*Rule{{Name: "r", KindMatch: []string{"a"}, ScopeMatch: []string{}, SuppressionList: []string{"r"}}},
		[]*Event{NewEvent("x", []string{"a"}, nil)}, []int{1})
	procCase("suppression-of-another-rule", []*Rule{{Name: "r", KindMatch: []string{"a"}, ScopeMatch: []string{}, SuppressionList: []string{"s"}}, {Name: "s", KindMatch: []string{"a"}, ScopeMatch: []string{}}},
		[]*Event{NewEvent("x", []string{"a"}, nil)}, []int{1})
	verifGuard("wildcard-next-to-exact-entry", func() {
		idx := NewRuleIndex()
		idx.AddRule(&Rule{Name: "r1", KindMatch: []string{"core.*.done"}, ScopeMatch: []string{}})
		idx.AddRule(&Rule{Name: "r2", KindMatch: []string{"core.task.started"}, ScopeMatch: []string{}})
		e := NewEvent("e", []string{"core", "task", "done"}, nil)
		if len(idx.Match(e)) != 1 || !idx.IsTriggering(e) {
			panic(fmt.Sprintf("WRONG: Match finds %d rules, IsTriggering says %v", len(idx.Match(e)), idx.IsTriggering(e)))
		}
	})
	fmt.Println("REPLAY-DONE")
}
`

var c01ReplayCache string

func c01Replay(c *Checker, o *Obl) map[string]interface{} {
	var want []string
	switch {
	case strings.Contains(o.ID, "safe:hash") && strings.Contains(o.ID, "addRule"):
		want = []string{"statematch-list-value"}
	case strings.Contains(o.ID, "safe:hash"):
		want = []string{"event-state-list-value", "event-state-map-value"}
	case strings.Contains(o.ID, "room-for-a-bit") || strings.Contains(o.ID, "rule-gets-a-bit") || strings.Contains(o.ID, "walks-the-bits") || strings.Contains(o.ID, "dec:loop2"):
		want = []string{"state-rules-63", "state-rules-64", "state-rules-65", "state-rules-130"}
	case strings.Contains(o.ID, "IsTriggering#") && strings.Contains(o.ID, "eventProcessor"), strings.Contains(o.ID, "cache-dropped"):
		want = []string{"cache-same-name-other-kind", "cache-same-kind-other-name"}
	case strings.Contains(o.ID, ").Match#"):
		want = []string{"rule-with-two-matching-patterns"}
	case strings.Contains(o.ID, "ProcessEvent#") && strings.Contains(o.ID, "loop2"):
		want = []string{"self-suppression", "suppression-of-another-rule"}
	case strings.Contains(o.ID, "trigAt") || strings.Contains(o.ID, "decides-reachability") || strings.Contains(o.ID, "rules-only-where"):
		want = []string{"wildcard-next-to-exact-entry"}
	default:
		return nil
	}
	if c01ReplayCache == "" {
		run := runOverlayTestFlags(c.W.Repo, "engine", c01ReplaySrc, c.Dir, 90*time.Second, "")
		c01ReplayCache = run.Out + " "
	}
	rp := map[string]interface{}{"confirmed": false, "replay": "engine: rule sets and events built from the failing site's path condition, run on the real RuleIndex with a panic guard and a 5 s watchdog", "replay_output": truncate(c01ReplayCache, 2000)}
	var outs []string
	for _, l := range strings.Split(c01ReplayCache, "\n") {
		for _, w := range want {
			if strings.HasPrefix(l, "REPLAY-CASE "+w+" ") {
				outs = append(outs, l)
				if !strings.HasSuffix(l, " ok") {
					rp["confirmed"] = true
				}
			}
		}
	}
	rp["outcome"] = strings.Join(outs, "; ")
	return rp
}

func init() { propSpecs["C01"].Replay = c01Replay }
