package main

import (
	"fmt"
	"go/constant"
	"go/token"
	"go/types"
	"sort"
	"strings"

	"golang.org/x/tools/go/ssa"
)

// library packages whose functions do not write memory reachable from repo objects
// (unless handed a function value).
var purePkgs = map[string]bool{"strings": true, "strconv": true, "fmt": true, "errors": true, "unicode": true, "unicode/utf8": true,
	"math": true, "regexp": true, "time": true, "path/filepath": true, "path": true, "reflect": true, "os": true, "io/ioutil": true,
	"github.com/krotik/common/stringutil": true, "github.com/krotik/common/errorutil": true, "math/rand": true, "sort": false,
	"runtime": true, "runtime/debug": true, "encoding/json": true, "bytes": true, "io": true, "bufio": true, "unsafe": true,
	"github.com/krotik/common/timeutil": true, "sync/atomic": false}

// sliceWriterPkgs: packages otherwise treated as free of effects on repository objects whose
// functions fill slices handed to them (Read, ReadAt, ReadFull, Unmarshal, ...).
var sliceWriterPkgs = map[string]bool{"os": true, "io": true, "io/ioutil": true, "bufio": true, "bytes": true, "encoding/json": true,
	"math/rand": true, "reflect": true, "unsafe": true}

// ptrWriterPkgs: decoders store through the pointers handed to them (json.Unmarshal(data, &v)).
var ptrWriterPkgs = map[string]bool{"encoding/json": true, "encoding/binary": true, "encoding/gob": true, "encoding/xml": true}

func (e *enc) goStmt(b *ssa.BasicBlock, g *ssa.Go) {
	for _, a := range g.Call.Args {
		e.val(a)
	}
	e.val(g.Call.Value)
	e.note("go statement (new goroutine not followed)")
	// the started goroutine may write shared memory at any time: nothing about the non-private heap survives
	e.havocHeap(nil)
}

func (e *enc) calleeKey(cc *ssa.CallCommon) (string, *ssa.Function) {
	if cc.IsInvoke() {
		return "", nil
	}
	callee := cc.StaticCallee()
	if callee == nil {
		return "", nil
	}
	return funcKey(callee), callee
}

func (e *enc) call(b *ssa.BasicBlock, c *ssa.Call) {
	e.callCommon(b, c, &c.Call, c, e.reach[b])
	if _, isBuiltin := c.Call.Value.(*ssa.Builtin); !isBuiltin {
		if n, ok := e.names[c]; ok {
			// whatever a call returns exists when it returns
			e.allocFacts(n, c.Type())
		}
	}
	if k := e.callKeyOf(&c.Call); k != "" {
		if n, ok := e.names[c]; ok {
			if _, isTuple := c.Type().(*types.Tuple); !isTuple {
				e.callResults[fmt.Sprintf("%s#%d", k, e.callOrd[k])] = cval{n, e.sortOf(c.Type()), c.Type()}
			}
			// "after call N of key": clauses about the state and the result right after the call
			ex := map[string]cval{}
			if tt, isTuple := c.Type().(*types.Tuple); isTuple {
				for i := 0; i < tt.Len(); i++ {
					e.callResults[fmt.Sprintf("%s#%d.%d", k, e.callOrd[k], i)] = cval{fmt.Sprintf("%s.c%d", n, i), e.sortOf(tt.At(i).Type()), tt.At(i).Type()}
					ex[fmt.Sprintf("result.%d", i)] = cval{fmt.Sprintf("%s.c%d", n, i), e.sortOf(tt.At(i).Type()), tt.At(i).Type()}
				}
				if tt.Len() > 0 {
					ex["result"] = ex["result.0"]
				}
			} else {
				ex["result"] = cval{n, e.sortOf(c.Type()), c.Type()}
				ex["result.0"] = ex["result"]
			}
			e.siteExtra = ex
			e.siteAt = nil
			e.siteAsserts(c, fmt.Sprintf("after call %d of %s", e.callOrd[k], k), nil, nil, e.reach[b])
			e.siteExtra = nil
		}
	}
}

// callCommon encodes a call. res is the SSA value receiving the result (nil for deferred calls).
func (e *enc) callCommon(b *ssa.BasicBlock, ins ssa.Instruction, cc *ssa.CallCommon, res ssa.Value, R string) {
	var args []string
	e.curCallRefs = nil
	for _, a := range cc.Args {
		t := e.val(a)
		args = append(args, t)
		if _, isBuiltin := cc.Value.(*ssa.Builtin); !isBuiltin {
			e.escapeObl(ins, R, a, "passed")
		}
		switch e.sortOf(a.Type()) {
		case "Ref":
			e.curCallRefs = append(e.curCallRefs, t)
		case "Iface":
			e.curCallRefs = append(e.curCallRefs, "(iptr "+t+")")
		}
	}
	if cc.IsInvoke() {
		e.curCallRefs = append(e.curCallRefs, "(iptr "+e.val(cc.Value)+")")
	}
	e.callBinds = nil
	if mc, ok := cc.Value.(*ssa.MakeClosure); ok {
		e.callBinds = map[string]bool{}
		for _, bd := range mc.Bindings {
			e.callBinds[e.val(bd)] = true
		}
	}
	havocRes := func() string {
		if res != nil {
			return e.havoc(res)
		}
		return ""
	}
	if bi, ok := cc.Value.(*ssa.Builtin); ok {
		e.builtin(b, ins, bi, cc, res, R, args)
		return
	}
	if cc.IsInvoke() {
		recv := e.val(cc.Value)
		e.addI("safe", "nil-iface", ins, R, fmt.Sprintf("(not (= %s INil))", recv))
		key := e.ifaceKey(cc)
		if key == "sync.Locker.Lock" || key == "sync.Locker.Unlock" {
			k2 := "(*sync.Mutex)." + cc.Method.Name()
			if e.syncCall(ins, k2, []string{"(iptr " + recv + ")"}, nil, R) {
				return
			}
		}
		e.callOrd[key] = e.ordOf(ins, key)
		e.countCall(key)
		e.siteAsserts(ins, fmt.Sprintf("call %d of %s", e.callOrd[key], key), cc.Method.Type().(*types.Signature), append([]string{recv}, args...), R)
		if fc := e.w.CS.Ifaces[key]; fc != nil {
			fc.Used = true
			sig := cc.Method.Type().(*types.Signature)
			e.applyContract(ins, fc, key, sig, recv, cc.Value.Type(), args, cc.Args, res, R)
			return
		}
		havocRes()
		e.callHook(ins, key, nil, R)
		e.havocByEffects(ins)
		return
	}
	callee := cc.StaticCallee()
	if callee == nil {
		fv := e.val(cc.Value)
		e.callOrd["dynamic"] = e.ordOf(ins, "dynamic")
		e.countCall("dynamic")
		if sig, ok := cc.Value.Type().Underlying().(*types.Signature); ok {
			e.siteExtra = map[string]cval{"callee": {fv, e.sortOf(cc.Value.Type()), cc.Value.Type()}}
			e.siteAsserts(ins, fmt.Sprintf("call %d of dynamic", e.callOrd["dynamic"]), sig, args, R)
			e.siteExtra = nil
		}
		if e.closureCellTarget(cc.Value) == nil {
			e.addI("safe", "nil-func", ins, R, fmt.Sprintf("(not (= %s 0))", fv))
		}
		// a local function variable assigned once with a function literal (mutually recursive local
		// closures): the call is a call of that literal, under its contract
		if fn := e.closureCellTarget(cc.Value); fn != nil {
			if fc := e.w.CS.Funcs[funcKey(fn)]; fc != nil {
				key := funcKey(fn)
				e.callOrd[key] = e.ordOf(ins, "dynamic")
				fc.Used = true
				e.lexicalCallee = true
				e.applyContract(ins, fc, key, fn.Signature, "", nil, args, cc.Args, res, R)
				e.lexicalCallee = false
				return
			}
		}
		// a function held in a struct field under contract ("functype T.field")
		if ld, ok := cc.Value.(*ssa.UnOp); ok {
			if fa, ok := ld.X.(*ssa.FieldAddr); ok {
				pt := fa.X.Type().Underlying().(*types.Pointer).Elem()
				if nt, ok := pt.(*types.Named); ok && nt.Obj().Pkg() != nil {
					k := nt.Obj().Pkg().Name() + "." + nt.Obj().Name() + "." + pt.Underlying().(*types.Struct).Field(fa.Field).Name()
					if fc := e.w.CS.FuncTypes[k]; fc != nil {
						fc.Used = true
						e.applyContract(ins, fc, "functype:"+k, cc.Value.Type().Underlying().(*types.Signature), "", nil, args, cc.Args, res, R)
						return
					}
				}
			}
		}
		if sig, ok := cc.Value.Type().Underlying().(*types.Signature); ok && e.f.Pkg != nil {
			// a value of a named function type under contract (or of the identical unnamed signature)
			var keys []string
			for k := range e.w.CS.FuncTypes {
				keys = append(keys, k)
			}
			sort.Strings(keys)
			for _, k := range keys {
				parts := strings.SplitN(k, ".", 2)
				p := e.w.TPkgs[parts[0]]
				if p == nil {
					continue
				}
				tn, ok := p.Scope().Lookup(parts[1]).(*types.TypeName)
				if !ok {
					continue
				}
				if nsig, ok := tn.Type().Underlying().(*types.Signature); ok && types.Identical(nsig, sig) {
					fc := e.w.CS.FuncTypes[k]
					fc.Used = true
					e.applyContract(ins, fc, "functype:"+k, nsig, "", nil, args, cc.Args, res, R)
					return
				}
			}
		}
		havocRes()
		e.callHook(ins, "", nil, R)
		e.havocByEffects(ins)
		return
	}
	key := funcKey(callee)
	e.callOrd[key] = e.ordOf(ins, key)
	e.countCall(key)
	e.siteAsserts(ins, fmt.Sprintf("call %d of %s", e.callOrd[key], key), callee.Signature, args, R)
	if callee.Signature.Recv() != nil && len(args) > 0 && callee.Pkg != nil && e.w.InRepo[callee.Pkg] {
		if _, ok := cc.Args[0].Type().Underlying().(*types.Pointer); ok && !e.localAlloc[args[0]] {
			e.addI("safe", "nil-recv", ins, R, fmt.Sprintf("(not (= %s 0))", args[0]))
		}
	}
	e.ioCallCheck(ins, key, callee, R)
	// a method that may rely on its interface contract's preconditions: static callers prove them too
	if callee.Signature.Recv() != nil && len(args) > 0 && callee.Pkg != nil && e.w.InRepo[callee.Pkg] {
		for _, ii := range e.ifaceContractsOf(callee) {
			if len(ii.fc.Requires) == 0 {
				continue
			}
			env := e.newEnv()
			env.pkg = ii.fc.Pkg
			env.st, env.old = e.heap, e.heap
			env.vars["this"] = cval{e.mkIface(args[0], cc.Args[0].Type()), "Iface", ii.tn.Type()}
			for i := 0; i < ii.sig.Params().Len() && i+1 < len(args); i++ {
				pt := callee.Signature.Params().At(i).Type()
				cv := cval{args[i+1], e.sortOf(pt), pt}
				if n := ii.sig.Params().At(i).Name(); n != "" && n != "_" {
					env.vars[n] = cv
				}
				env.vars[fmt.Sprintf("arg%d", i)] = cv
			}
			for _, c := range ii.fc.Requires {
				t, err := env.boolTerm(c.Expr)
				if err != nil {
					e.contractError(c, err)
					continue
				}
				o := e.addI("pre", key+":iface:"+c.Label, ins, R, t)
				o.Callee = key
			}
		}
	}
	switch key {
	case "fmt.Sprintf":
		if t, ok := e.sprintfModel(cc); ok && res != nil {
			e.define(res, t)
			return
		}
	case "fmt.Sprint":
		if vs, ok := e.varargValues(cc.Args[0]); ok && len(vs) == 1 && res != nil {
			if mi, ok := vs[0].(*ssa.MakeInterface); ok && e.sortOf(mi.X.Type()) == "Str" && types.Identical(mi.X.Type(), types.Typ[types.String]) {
				e.define(res, e.val(mi.X))
				return
			}
			n := e.define(res, "(sprint "+e.val(vs[0])+")")
			e.assume(fmt.Sprintf("(=> (is-IStr %s) (= %s (istr %s)))", e.val(vs[0]), n, e.val(vs[0])))
			return
		}
	case "errorutil.AssertTrue":
		e.addI("safe", "assert", ins, R, args[0])
		e.assumeAt(R, args[0])
		return
	case "errorutil.AssertOk":
		e.addI("safe", "assert", ins, R, fmt.Sprintf("(= %s INil)", args[0]))
		e.assumeAt(R, fmt.Sprintf("(= %s INil)", args[0]))
		return
	}
	if e.syncCall(ins, key, args, cc.Args, R) {
		havocRes()
		return
	}
	if fc := e.w.CS.Funcs[key]; fc != nil {
		fc.Used = true
		var recv string
		var recvT types.Type
		a, av := args, cc.Args
		if callee.Signature.Recv() != nil && len(args) > 0 {
			recv, recvT = args[0], cc.Args[0].Type()
			a, av = args[1:], cc.Args[1:]
		}
		e.applyContractFn(ins, fc, key, callee, recv, recvT, a, av, res, R)
		return
	}
	havocRes()
	e.callHook(ins, key, callee, R)
	e.havocByEffects(ins)
	if !(callee.Pkg != nil && e.w.InRepo[callee.Pkg]) {
		if pp := pkgPathOf(callee); purePkgs[pp] {
			e.assumptions["library call "+key+": result unconstrained; package "+pp+" is treated as free of effects on repository objects (excepted: elements of slices handed to os/io/bufio/bytes/json/rand functions and objects handed by pointer to decoders are havocked)"] = true
		} else {
			e.assumptions["library call "+key+": result unconstrained; effects on repo objects only through pointer/interface/function/slice arguments"] = true
		}
	}
}

// havocByEffects havocs exactly the arrays the call may write according to the whole-program
// mod analysis (modref.go).
func (e *enc) havocByEffects(ins ssa.Instruction) {
	ci, ok := ins.(ssa.CallInstruction)
	if !ok {
		e.havocHeap(nil)
		return
	}
	e.w.immutableArr("")
	mi := e.w.Mod
	eff := map[string]bool{}
	callees := map[*ssa.Function]bool{}
	mi.callEffects(e.f, ci, func(a string) { eff[a] = true }, callees, true)
	for c := range callees {
		t, ok := mi.modOf(c)
		if !ok {
			e.havocHeap(nil)
			return
		}
		for a := range t {
			eff[a] = true
		}
	}
	e.havocHeap(func(a string) bool { return !eff[a] })
}

func (e *enc) ifaceKey(cc *ssa.CallCommon) string {
	t := cc.Value.Type()
	name := types.TypeString(t, qualName)
	return name + "." + cc.Method.Name()
}

func (e *enc) builtin(b *ssa.BasicBlock, ins ssa.Instruction, bi *ssa.Builtin, cc *ssa.CallCommon, res ssa.Value, R string, args []string) {
	hv := func() string {
		if res != nil {
			return e.havoc(res)
		}
		return ""
	}
	switch bi.Name() {
	case "len":
		switch e.sortOf(cc.Args[0].Type()) {
		case "Slice":
			e.define(res, "(len "+args[0]+")")
		case "Str":
			n := e.define(res, e.slenI(args[0]))
			e.assume(e.ige0(n))
		case "Ref":
			n := hv()
			if _, ok := cc.Args[0].Type().Underlying().(*types.Map); ok {
				e.harr("MapLen", "(Array Ref "+e.isort()+")")
				e.assume(fmt.Sprintf("(= %s (ite (= %s 0) %s (select %s %s)))", n, args[0], e.ilit(0), e.hname("MapLen"), args[0]))
			}
			e.assume(e.ige0(n))
		default:
			n := hv()
			e.assume(e.ige0(n))
		}
	case "cap":
		if e.sortOf(cc.Args[0].Type()) == "Slice" {
			e.define(res, "(cap "+args[0]+")")
		} else {
			n := hv()
			e.assume(e.ige0(n))
		}
	case "append":
		n := hv()
		x := args[0]
		st := cc.Args[0].Type().Underlying().(*types.Slice)
		el := st.Elem()
		es := e.sortOf(el)
		var ylen string
		var y string
		if len(args) == 2 && e.sortOf(cc.Args[1].Type()) == "Slice" {
			y = args[1]
			ylen = "(len " + y + ")"
		} else if len(args) == 2 && e.sortOf(cc.Args[1].Type()) == "Str" {
			ylen = e.slenI(args[1])
		} else {
			ylen = e.ilit(0)
		}
		if pt, ok := el.(*types.Pointer); ok {
			if nt, ok := pt.Elem().(*types.Named); ok && nt.Obj().Pkg() != nil {
				if td := e.w.CS.Types[nt.Obj().Pkg().Name()+"."+nt.Obj().Name()]; td != nil && td.NonnilElems && sliceOrigin(cc.Args[0], 0) == "H_"+td.Pkg+"."+td.Type+"."+td.NonnilElemsField {
					if vals, ok := e.varargValues(cc.Args[1]); ok {
						for _, v := range vals {
							e.addI("inv", "nonnil-elems:"+nt.Obj().Name(), ins, R, fmt.Sprintf("(not (= %s 0))", e.val(v)))
						}
					} else {
						e.addI("inv", "nonnil-elems:"+nt.Obj().Name(), ins, R, "false") // appending a whole slice: not supported for this declaration
					}
				}
			}
		}
		e.assume(fmt.Sprintf("(= (len %s) %s)", n, e.iadd("(len "+x+")", ylen)))
		e.assume(fmt.Sprintf("(> (arr %s) 0)", n))
		if _, isStruct := el.Underlying().(*types.Struct); isStruct || es == "SV" {
			e.havocHeap(func(a string) bool { return !strings.HasPrefix(a, "H_") })
			return
		}
		arr := "Elems_" + sname(types.TypeString(el, qualName))
		e.harr(arr, "(Array Ref (Array "+e.isort()+" "+e.smtSort(es)+"))")
		old := e.hname(arr)
		nv := e.bump(arr)
		// either in place (enough capacity: same array, same offset) or a fresh array at offset 0.
		inPlace := e.newName("appendInPlace")
		e.decl(inPlace, "Bool")
		e.assume(fmt.Sprintf("(=> %s (and (= (arr %s) (arr %s)) (= (off %s) (off %s)) (= (cap %s) (cap %s)) %s))", inPlace, n, x, n, x, n, x,
			e.icmp(token.LEQ, e.iadd("(len "+x+")", ylen), "(cap "+x+")", false)))
		e.assume(fmt.Sprintf("(=> (not %s) (and (>= (birth (arr %s)) %s) (= (off %s) %s)))", inPlace, n, e.now(e.heap), n, e.ilit(0)))
		e.assume(fmt.Sprintf("(=> %s %s)", e.icmp(token.GTR, e.iadd("(len "+x+")", ylen), "(cap "+x+")", false), "(not "+inPlace+")"))
		// contents: the other arrays are unchanged, old elements preserved, new ones follow
		if !e.preciseAppend() {
			oldNow := e.now(e.heap)
			nn := e.bump("G_now")
			e.assume(fmt.Sprintf("(> %s %s)", nn, oldNow))
			e.assume(fmt.Sprintf("(< (birth (arr %s)) %s)", n, nn))
			return
		}
		if vals, ok := e.varargValues(cc.Args[1]); ok && y != "" && len(vals) > 0 && len(vals) <= 8 {
			// append(x, a, b, ...): quantifier free. In place: a store chain on x's array; otherwise the
			// fresh array is given as a lambda (copy of x followed by the new elements).
			A := fmt.Sprintf("(select %s (arr %s))", old, x)
			ip := A
			kk := e.newName("k")
			fr := fmt.Sprintf("(select (select %s (arr %s)) %s)", old, n, kk)
			for j := len(vals) - 1; j >= 0; j-- {
				fr = fmt.Sprintf("(ite (= %s %s) %s %s)", kk, e.iadd("(len "+x+")", e.ilit(int64(j))), e.val(vals[j]), fr)
			}
			for j, v := range vals {
				ip = fmt.Sprintf("(store %s %s %s)", ip, e.iadd(e.iadd("(off "+x+")", "(len "+x+")"), e.ilit(int64(j))), e.val(v))
			}
			fr = fmt.Sprintf("(lambda ((%s %s)) (ite (and %s %s) (select %s %s) %s))", kk, e.isort(),
				e.icmp(token.GEQ, kk, e.ilit(0), false), e.icmp(token.LSS, kk, "(len "+x+")", false), A, e.iadd("(off "+x+")", kk), fr)
			e.assume(fmt.Sprintf("(= %s (ite %s (store %s (arr %s) %s) (store %s (arr %s) %s)))", nv, inPlace, old, x, ip, old, n, fr))
			oldNow := e.now(e.heap)
			nn := e.bump("G_now")
			e.assume(fmt.Sprintf("(> %s %s)", nn, oldNow))
			e.assume(fmt.Sprintf("(< (birth (arr %s)) %s)", n, nn))
			return
		}
		k := e.newName("k")
		ks := e.isort()
		ge0 := e.icmp(token.GEQ, k, e.ilit(0), false)
		ltOld := e.icmp(token.LSS, k, "(len "+x+")", false)
		e.assume(fmt.Sprintf("(forall ((r Ref)) (! (=> (not (= r (arr %s))) (= (select %s r) (select %s r))) :pattern ((select %s r))))", n, nv, old, nv))
		e.assume(fmt.Sprintf("(forall ((%s %s)) (! (=> (and %s %s) (= (select (select %s (arr %s)) %s) (select (select %s (arr %s)) %s))) :pattern ((select (select %s (arr %s)) %s))))",
			k, ks, ge0, ltOld, nv, n, e.iadd("(off "+n+")", k), old, x, e.iadd("(off "+x+")", k), nv, n, e.iadd("(off "+n+")", k)))
		e.assume(fmt.Sprintf("(=> %s (forall ((%s %s)) (! (=> (or %s %s) (= (select (select %s (arr %s)) %s) (select (select %s (arr %s)) %s))) :pattern ((select (select %s (arr %s)) %s)))))",
			inPlace, k, ks, e.icmp(token.LSS, k, "(off "+x+")", false), e.icmp(token.GEQ, k, e.iadd("(off "+x+")", e.iadd("(len "+x+")", ylen)), false),
			nv, n, k, old, x, k, nv, n, k))
		if false {
		} else if y != "" {
			ltY := e.icmp(token.LSS, k, ylen, false)
			e.assume(fmt.Sprintf("(forall ((%s %s)) (! (=> (and %s %s) (= (select (select %s (arr %s)) %s) (select (select %s (arr %s)) %s))) :pattern ((select (select %s (arr %s)) %s))))",
				k, ks, ge0, ltY, nv, n, e.iadd(e.iadd("(off "+n+")", "(len "+x+")"), k), old, y, e.iadd("(off "+y+")", k), old, y, e.iadd("(off "+y+")", k)))
		}
		// the allocation clock moves on
		oldNow := e.now(e.heap)
		nn := e.bump("G_now")
		e.assume(fmt.Sprintf("(> %s %s)", nn, oldNow))
		e.assume(fmt.Sprintf("(< (birth (arr %s)) %s)", n, nn))
	case "delete":
		mt := cc.Args[0].Type().Underlying().(*types.Map)
		ks, vs := e.sortOf(mt.Key()), e.sortOf(mt.Elem())
		if ks == "Iface" {
			e.addI("safe", "hash", ins, R, fmt.Sprintf("(not (uncomparable %s))", args[1]))
		}
		e.mapWriteHook(b, ins, args[0])
		e.harr("MapLen", "(Array Ref "+e.isort()+")")
		if !mapSupported(ks, vs) {
			e.bump("MapLen")
			return
		}
		hasA, _ := e.mapArrs(ks, vs)
		oh := e.hname(hasA)
		nh := e.bump(hasA)
		m, k := args[0], args[1]
		e.assume(fmt.Sprintf("(= %s (ite (= %s 0) %s (store %s %s (store (select %s %s) %s false))))", nh, m, oh, oh, m, oh, m, k))
		ol := e.hname("MapLen")
		nl := e.bump("MapLen")
		e.assume(fmt.Sprintf("(= %s (ite (and (not (= %s 0)) (select (select %s %s) %s)) (store %s %s %s) %s))", nl, m, oh, m, k, ol, m, e.isub("(select "+ol+" "+m+")", e.ilit(1)), ol))
	case "copy":
		n := hv()
		e.assume(e.ige0(n))
		if st, ok := cc.Args[0].Type().Underlying().(*types.Slice); ok {
			e.assume(e.icmp(token.LEQ, n, "(len "+args[0]+")", false))
			arr := "Elems_" + sname(types.TypeString(st.Elem(), qualName))
			if _, ok := e.heapSort[arr]; ok {
				e.bump(arr)
			} else {
				e.harr(arr, "(Array Ref (Array "+e.isort()+" "+e.smtSort(e.sortOf(st.Elem()))+"))")
				e.bump(arr)
			}
		}
	case "panic":
		e.addI("safe", "panic", ins, R, "false")
	case "recover":
		hv()
	case "close":
		e.note("close(chan) (unmodelled)")
	case "print", "println":
	default:
		hv()
		e.note("builtin " + bi.Name())
	}
}

// countCall maintains the ghost call counter of a callee mentioned in ncalls().
func (e *enc) countCall(key string) {
	if !e.countKeys[key] {
		return
	}
	arr := "G_n:" + key
	e.harr(arr, "Int")
	old := e.hname(arr)
	nv := e.bump(arr)
	e.assume(fmt.Sprintf("(= %s (+ %s 1))", nv, old))
}

func (e *enc) preciseAppend() bool {
	return e.fc != nil && e.fc.Opts["append"] == "precise"
}

// ---- contracts at call sites ----

func (e *enc) applyContractFn(ins ssa.Instruction, fc *FuncContract, key string, callee *ssa.Function, recv string, recvT types.Type, args []string, argVals []ssa.Value, res ssa.Value, R string) {
	e.applyContract(ins, fc, key, callee.Signature, recv, recvT, args, argVals, res, R)
}

func (e *enc) applyContract(ins ssa.Instruction, fc *FuncContract, key string, sig *types.Signature, recv string, recvT types.Type, args []string, argVals []ssa.Value, res ssa.Value, R string) {
	env := e.newEnv()
	env.pkg = fc.Pkg
	if e.usedFCs == nil {
		e.usedFCs = map[*FuncContract]string{}
	}
	e.usedFCs[fc] = key
	if recv != "" {
		name := "this"
		if sig.Recv() != nil && sig.Recv().Name() != "" && sig.Recv().Name() != "_" {
			name = sig.Recv().Name()
		}
		rt := recvT
		if sig.Recv() != nil {
			if _, isIface := recvT.Underlying().(*types.Interface); !isIface {
				rt = sig.Recv().Type()
			}
		}
		env.vars[name] = cval{recv, e.sortOf(rt), rt}
		env.vars["this"] = env.vars[name]
	}
	for i := 0; i < sig.Params().Len() && i < len(args); i++ {
		p := sig.Params().At(i)
		name := p.Name()
		if name == "" || name == "_" {
			name = fmt.Sprintf("arg%d", i)
		}
		env.vars[name] = cval{args[i], e.sortOf(p.Type()), p.Type()}
		env.vars[fmt.Sprintf("arg%d", i)] = env.vars[name]
	}
	pre := e.heap.clone()
	env.st, env.old = pre, pre
	if e.lexicalCallee {
		// the callee is a sibling / child literal of the same lexical scope: its captured variables are
		// the caller's variables of the same name
		se := e.siteEnv(ins)
		env.lookup = se.lookup
	}
	// a closure's captured variables: resolved through the bindings of the MakeClosure
	if ci, ok := ins.(ssa.CallInstruction); ok {
		if mc, ok := ci.Common().Value.(*ssa.MakeClosure); ok {
			fn := mc.Fn.(*ssa.Function)
			binds := mc.Bindings
			base := env.lookup
			env.lookup = func(name string) (cval, bool) {
				for i, fv := range fn.FreeVars {
					if fv.Name() == name && i < len(binds) {
						e.val(binds[i])
						if l, ok := e.locs[binds[i]]; ok && l.kind != "struct" {
							return cval{e.loadIn(l, env.st), l.sort, l.t}, true
						}
					}
				}
				if base != nil {
					return base(name)
				}
				return cval{}, false
			}
		}
	}
	for _, c := range fc.Requires {
		t, err := env.boolTerm(c.Expr)
		if err != nil {
			e.contractError(c, err)
			continue
		}
		lbl := key
		if c.Label != "" {
			lbl = key + ":" + c.Label
		}
		o := e.addI("pre", lbl, ins, R, t)
		o.Callee = key
		e.assumeAt(R, t)
	}
	e.callHook(ins, key, nil, R)
	// frame
	e.havocPerAssigns(ins, fc, env)
	var n string
	if res != nil {
		n = e.havoc(res)
		if tt, ok := res.Type().(*types.Tuple); ok {
			for k := 0; k < tt.Len(); k++ {
				env.vars[fmt.Sprintf("result.%d", k)] = cval{fmt.Sprintf("%s.c%d", n, k), e.sortOf(tt.At(k).Type()), tt.At(k).Type()}
				if nm := sig.Results().At(k).Name(); nm != "" && nm != "_" {
					env.vars[nm] = env.vars[fmt.Sprintf("result.%d", k)]
				}
			}
		} else {
			env.vars["result"] = cval{n, e.sortOf(res.Type()), res.Type()}
			env.vars["result.0"] = env.vars["result"]
			if sig.Results().Len() == 1 {
				if nm := sig.Results().At(0).Name(); nm != "" && nm != "_" {
					env.vars[nm] = env.vars["result"]
				}
			}
		}
	}
	env.st = e.heap
	env.old = pre
	for k, v := range env.vars {
		if !strings.HasPrefix(k, "old_") && !strings.HasPrefix(k, "result") {
			env.vars["old_"+k] = v
		}
	}
	ens := fc.Ensures
	if fc.Extra != nil {
		// trusted facts declared by another package for this (checked) function
		ens = append(append([]Clause{}, ens...), fc.Extra.Ensures...)
		e.assumptions["trusted facts about "+key+" declared in package "+fc.Extra.Pkg] = true
	}
	for _, c := range ens {
		if res == nil && mentionsResult(c.Expr) {
			continue
		}
		if src := c.Expr.String(); strings.Contains(src, "callresult(") || strings.Contains(src, "ncalls(") || strings.Contains(src, "atlock(") || strings.Contains(src, "loopval(") {
			continue // talks about the callee's own activation: not usable by callers
		}
		t, err := env.boolTerm(c.Expr)
		if err != nil {
			e.contractError(c, err)
			continue
		}
		e.assumeAt(R, t)
	}
	if fc.Trusted {
		e.assumptions["trusted contract: "+key] = true
	}
}

func mentionsResult(ex CExpr) bool {
	return strings.Contains(ex.String(), "result")
}

// havocPerAssigns applies the frame of a contract: unspecified = everything.
func (e *enc) havocPerAssigns(ins ssa.Instruction, fc *FuncContract, env *cenv) {
	if !fc.HasAssigns && fc.Extra != nil && fc.Extra.HasAssigns {
		fc = fc.Extra
	}
	if !fc.HasAssigns {
		e.havocByEffects(ins)
		return
	}
	var pats []string
	ghostWrites := map[string]bool{}
	assigns := fc.Assigns
	if len(assigns) > 0 && strings.HasPrefix(assigns[0], "* except ") {
		// everything but the listed arrays
		exc := append([]string{strings.TrimPrefix(assigns[0], "* except ")}, assigns[1:]...)
		e.havocHeap(func(arr string) bool {
			for _, p := range exc {
				p = strings.TrimSpace(p)
				if k := strings.Index(p, "@"); k > 0 {
					p = p[:k] // checked per implementer against the slices' origin fields (frame:assigns)
				}
				if matchArr(p, arr) {
					return true
				}
			}
			return false
		})
		return
	}
	for _, a := range assigns {
		switch {
		case a == "nothing":
		case a == "*":
			e.havocHeap(nil)
			return
		case a == "fresh":
			// only allocates: clock advances
			old := e.now(e.heap)
			nv := e.bump("G_now")
			e.assume(fmt.Sprintf("(>= %s %s)", nv, old))
		case strings.HasPrefix(a, "G_"):
			ghostWrites[a] = true
		default:
			pats = append(pats, a)
		}
	}
	if len(pats) > 0 {
		e.havocHeap(func(arr string) bool {
			for _, p := range pats {
				if matchArr(p, arr) {
					return false
				}
			}
			return true
		})
	}
	for g := range ghostWrites {
		e.harr(g, "(Array Ref Bool)")
		e.bump(g)
	}
}

// matchArr: pattern forms "T.f" (field f of struct T, package-qualified or not), "Elems", "Maps", "Cells", "Globals", exact array name, "T.*".
func matchArr(p, arr string) bool {
	if k := strings.Index(p, "@"); k > 0 {
		return false // field-qualified entries are handled where frames are applied / checked
	}
	switch p {
	case "Elems":
		return strings.HasPrefix(arr, "Elems_")
	case "Maps":
		return strings.HasPrefix(arr, "Map_") || arr == "MapLen"
	case "Cells":
		return strings.HasPrefix(arr, "Cell_")
	case "Globals":
		return strings.HasPrefix(arr, "Glob_")
	}
	if p == arr {
		return true
	}
	if strings.HasPrefix(arr, "H_") {
		body := strings.TrimPrefix(arr, "H_")
		if strings.HasSuffix(p, ".*") {
			return strings.HasPrefix(body, strings.TrimSuffix(p, "*")) || strings.Contains(body, "."+strings.TrimSuffix(p, "*"))
		}
		return body == p || strings.HasSuffix(body, "."+p)
	}
	return false
}

// ---- return, defers ----

func (e *enc) resultEnv(rets []string, retTypes []types.Type) *cenv {
	env := e.paramEnv()
	for _, p := range e.f.Params {
		env.vars["old_"+p.Name()] = env.vars[p.Name()]
	}
	sig := e.f.Signature
	for k, r := range rets {
		cv := cval{r, e.sortOf(retTypes[k]), retTypes[k]}
		env.vars[fmt.Sprintf("result.%d", k)] = cv
		if k < sig.Results().Len() {
			if nm := sig.Results().At(k).Name(); nm != "" && nm != "_" {
				env.vars[nm] = cv
			}
		}
	}
	if len(rets) >= 1 {
		env.vars["result"] = env.vars["result.0"]
	}
	env.st = e.heap
	env.old = e.entry
	env.loopEnvOf = func(n int) *cenv {
		h := e.headerByOrdinal(n)
		if h == nil {
			return nil
		}
		return e.loopEnv(h, nil, e.heapIn[h])
	}
	return env
}

func (e *enc) ret(b *ssa.BasicBlock, r *ssa.Return) {
	R := e.reach[b]
	var rets []string
	var rts []types.Type
	for _, v := range r.Results {
		rets = append(rets, e.val(v))
		rts = append(rts, v.Type())
	}
	e.returnHook(b, r, R)
	e.retVals, e.retTypes = rets, rts
	e.siteAsserts(r, "return", nil, nil, R)
	e.retVals, e.retTypes = nil, nil
	if e.fc != nil && e.fc.Trusted {
		return
	}
	e.ifaceEnsuresObls(r, R, rets, rts)
	if e.fc == nil {
		return
	}
	env := e.resultEnv(rets, rts)
	for _, c := range e.fc.Ensures {
		t, err := env.boolTerm(c.Expr)
		if err != nil {
			e.contractError(c, err)
			continue
		}
		lbl := c.Label
		pos := r.Pos()
		if !pos.IsValid() {
			pos = e.nearPos(r)
		}
		e.add("post", lbl, pos, R, t)
	}
}

func (e *enc) runDefers(b *ssa.BasicBlock, rd *ssa.RunDefers) {
	R := e.reach[b]
	for k := len(e.defers) - 1; k >= 0; k-- {
		d := e.defers[k]
		db := d.Block()
		if e.reach[db] == "" {
			continue
		}
		if _, inLoop := e.inAnyLoop(db); inLoop {
			e.note("defer inside a loop (unmodelled: heap havocked at RunDefers)")
			e.havocHeap(nil)
			continue
		}
		guard := e.reach[db]
		before := e.heap.clone()
		path := R
		if guard != "R_0" {
			path = fmt.Sprintf("(and %s %s)", R, guard)
		}
		e.curInstr = rd
		e.siteAt = rd
		e.callCommon(b, d, &d.Call, nil, path)
		e.siteAt = nil
		if guard != "R_0" {
			// conditional defer: merge
			arrs := []string{}
			for a := range e.heapSort {
				arrs = append(arrs, a)
			}
			sort.Strings(arrs)
			for _, a := range arrs {
				if e.heap[a] != before[a] {
					after := e.hname(a)
					m := e.bump(a)
					e.assume(fmt.Sprintf("(= %s (ite %s %s %s))", m, guard, after, e.hnameIn(a, before)))
				}
			}
		}
	}
}

func (e *enc) inAnyLoop(b *ssa.BasicBlock) (*ssa.BasicBlock, bool) {
	for h, body := range e.loopBody {
		if body[b] {
			return h, true
		}
	}
	return nil, false
}

// varargValues recovers the values stored into a freshly built variadic argument slice.
func (e *enc) varargValues(v ssa.Value) ([]ssa.Value, bool) {
	if c, ok := v.(*ssa.Const); ok && c.Value == nil {
		return nil, true
	}
	sl, ok := v.(*ssa.Slice)
	if !ok {
		return nil, false
	}
	al, ok := sl.X.(*ssa.Alloc)
	if !ok {
		return nil, false
	}
	at, ok := al.Type().Underlying().(*types.Pointer).Elem().Underlying().(*types.Array)
	if !ok {
		return nil, false
	}
	vals := make([]ssa.Value, at.Len())
	for _, r := range *al.Referrers() {
		ia, ok := r.(*ssa.IndexAddr)
		if !ok {
			continue
		}
		c, ok := ia.Index.(*ssa.Const)
		if !ok {
			return nil, false
		}
		for _, rr := range *ia.Referrers() {
			if st, ok := rr.(*ssa.Store); ok && st.Addr == ia {
				vals[int(c.Int64())] = st.Val
			}
		}
	}
	for _, x := range vals {
		if x == nil {
			return nil, false
		}
	}
	return vals, true
}

// sprintfModel: fmt.Sprintf with a constant format made of text, %v/%s verbs and string operands
// is the concatenation of the pieces.
func (e *enc) sprintfModel(cc *ssa.CallCommon) (string, bool) {
	fc, ok := cc.Args[0].(*ssa.Const)
	if !ok || fc.Value == nil {
		return "", false
	}
	format := constantString(fc)
	vals, ok := e.varargValues(cc.Args[1])
	if !ok {
		return "", false
	}
	var parts []string
	cur := ""
	k := 0
	for i := 0; i < len(format); i++ {
		if format[i] != '%' {
			cur += string(format[i])
			continue
		}
		if i+1 >= len(format) {
			return "", false
		}
		i++
		switch format[i] {
		case '%':
			cur += "%"
		case 'v', 's':
			if k >= len(vals) {
				return "", false
			}
			mi, ok := vals[k].(*ssa.MakeInterface)
			if !ok || !types.Identical(mi.X.Type(), types.Typ[types.String]) {
				return "", false
			}
			k++
			if cur != "" {
				parts = append(parts, e.strLit(cur))
				cur = ""
			}
			parts = append(parts, e.val(mi.X))
		default:
			return "", false
		}
	}
	if k != len(vals) {
		return "", false
	}
	if cur != "" {
		parts = append(parts, e.strLit(cur))
	}
	if len(parts) == 0 {
		return e.strLit(""), true
	}
	t := parts[0]
	for _, p := range parts[1:] {
		if e.strTheory {
			t = fmt.Sprintf("(str.++ %s %s)", t, p)
		} else {
			t = fmt.Sprintf("(sconcat %s %s)", t, p)
		}
	}
	return t, true
}

func constantString(c *ssa.Const) string {
	return constant.StringVal(c.Value)
}

// siteAsserts emits the contract's "assert at <site>: e" clauses for this site. Callee parameters
// are visible under their names and as arg0, arg1, ...
func (e *enc) siteAsserts(ins ssa.Instruction, site string, sig *types.Signature, args []string, R string) {
	if e.fc == nil {
		return
	}
	for _, sc := range e.fc.Asserts {
		if sc.Site != site {
			continue
		}
		e.usedSites[site] = true
		env := e.siteEnv(ins)
		for k, v := range e.siteExtra {
			env.vars[k] = v
		}
		if site == "return" {
			renv := e.resultEnv(e.retVals, e.retTypes)
			for k, v := range renv.vars {
				if strings.HasPrefix(k, "result") {
					env.vars[k] = v
				}
			}
		}
		if sig != nil {
			off := 0
			if sig.Recv() != nil {
				off = 1
				if len(args) > 0 {
					env.vars["recv"] = cval{args[0], e.sortOf(sig.Recv().Type()), sig.Recv().Type()}
				}
			}
			for i := 0; i < sig.Params().Len() && i+off < len(args); i++ {
				p := sig.Params().At(i)
				cv := cval{args[i+off], e.sortOf(p.Type()), p.Type()}
				env.vars[fmt.Sprintf("arg%d", i)] = cv
			}
		}
		t, err := env.boolTerm(sc.Expr)
		if err != nil {
			e.contractError(sc.Clause, err)
			continue
		}
		if sc.Kind == "assume" {
			e.assumeAt(R, t)
			e.assumptions[fmt.Sprintf("assume %s in %s", sc.Label, e.key)] = true
			continue
		}
		if sc.Kind == "prove" {
			e.addI("assert", sc.Label, ins, R, t)
			e.assumeAt(R, t)
			continue
		}
		if sc.Kind == "finding" {
			e.addI("finding", sc.Label, ins, R, t)
			e.assumeAt(R, t)
			continue
		}
		e.addI("assert", sc.Label, ins, R, t)
	}
}

// siteEnv: names are resolved to the values they hold just before ins.
func (e *enc) siteEnv(ins ssa.Instruction) *cenv {
	if e.siteAt != nil {
		ins = e.siteAt // a deferred call runs where the defers are run, not where it was registered
	}
	env := e.newEnv()
	env.st = e.heap
	env.old = e.entry
	b := ins.Block()
	idx := len(b.Instrs)
	for i, x := range b.Instrs {
		if x == ins {
			idx = i
		}
	}
	env.lookup = func(name string) (cval, bool) {
		v, isAddr, ok := e.resolveLocalBefore(name, b, idx)
		if !ok {
			return cval{}, false
		}
		if isAddr {
			e.val(v)
			l, ok := e.locs[v]
			if !ok || l.kind == "struct" {
				return cval{}, false
			}
			return cval{e.loadIn(l, env.st), l.sort, l.t}, true
		}
		return cval{e.val(v), e.sortOf(v.Type()), v.Type()}, true
	}
	for _, p := range e.f.Params {
		env.vars["old_"+p.Name()] = cval{e.val(p), e.sortOf(p.Type()), p.Type()}
	}
	return env
}

var ioPkgs = map[string]bool{"os": true, "io/ioutil": true, "io": true, "bufio": true, "net": true, "os/exec": true, "syscall": true, "net/http": true, "plugin": true}

// ioCallCheck: a function with "opt io-calls a,b" may call, among the functions of the
// file/network packages, only the listed ones.
func (e *enc) ioCallCheck(ins ssa.Instruction, key string, callee *ssa.Function, R string) {
	if e.fc == nil {
		return
	}
	allowed, ok := e.fc.Opts["io-calls"]
	if !ok {
		return
	}
	pkgPath := ""
	if callee.Pkg != nil {
		pkgPath = callee.Pkg.Pkg.Path()
	} else if callee.Object() != nil && callee.Object().Pkg() != nil {
		pkgPath = callee.Object().Pkg().Path()
	}
	if !ioPkgs[pkgPath] {
		return
	}
	for _, a := range strings.Split(allowed, ",") {
		if strings.TrimSpace(a) == key {
			o := e.addI("frame", "io:"+key, ins, R, "true")
			o.Struct = true
			return
		}
	}
	o := e.addI("frame", "io:"+key, ins, R, "false")
	o.Note = "call of a file/network function that the contract does not allow"
}

// ordOf: the ordinal of a call site among the calls of the same callee in this function, in source
// order (position in the file; instructions without position keep their SSA order after the others).
func (e *enc) ordOf(ins ssa.Instruction, key string) int {
	if e.siteOrd == nil {
		e.siteOrd = map[ssa.Instruction]int{}
		type site struct {
			ins ssa.Instruction
			pos token.Pos
			seq int
		}
		by := map[string][]site{}
		seq := 0
		for _, b := range e.f.Blocks {
			for _, i := range b.Instrs {
				ci, ok := i.(ssa.CallInstruction)
				if !ok {
					continue
				}
				if _, isB := ci.Common().Value.(*ssa.Builtin); isB {
					continue
				}
				k := e.callKeyOf(ci.Common())
				seq++
				p := i.Pos()
				if d, ok := i.(*ssa.Defer); ok {
					p = d.Pos()
				}
				by[k] = append(by[k], site{i, p, seq})
			}
		}
		for _, ss := range by {
			sort.SliceStable(ss, func(a, b int) bool {
				pa, pb := ss[a].pos, ss[b].pos
				if pa.IsValid() != pb.IsValid() {
					return pa.IsValid()
				}
				if pa != pb {
					return pa < pb
				}
				return ss[a].seq < ss[b].seq
			})
			for n, st := range ss {
				e.siteOrd[st.ins] = n + 1
			}
		}
	}
	if n, ok := e.siteOrd[ins]; ok {
		return n
	}
	// (deferred calls are re-encoded where the defers run: same instruction, same ordinal)
	e.callOrd[key]++
	return e.callOrd[key]
}

// closureCellTarget: v is a load of a local function variable (directly, or through a captured
// variable) which is assigned exactly once, with a function literal. Returns that literal.
func (e *enc) closureCellTarget(v ssa.Value) *ssa.Function {
	ld, ok := v.(*ssa.UnOp)
	if !ok || ld.Op != token.MUL {
		return nil
	}
	var cell *ssa.Alloc
	owner := e.f
	switch x := ld.X.(type) {
	case *ssa.Alloc:
		cell = x
	case *ssa.FreeVar:
		// walk up to the function owning the variable
		f := e.f
		var fv ssa.Value = x
		for f != nil {
			fvar, ok := fv.(*ssa.FreeVar)
			if !ok {
				break
			}
			idx := -1
			for i, q := range f.FreeVars {
				if q == fvar {
					idx = i
				}
			}
			parent := f.Parent()
			if idx < 0 || parent == nil {
				return nil
			}
			var bound ssa.Value
			for _, b := range parent.Blocks {
				for _, ins := range b.Instrs {
					if mc, ok := ins.(*ssa.MakeClosure); ok && mc.Fn == f && idx < len(mc.Bindings) {
						bound = mc.Bindings[idx]
					}
				}
			}
			if bound == nil {
				return nil
			}
			fv = bound
			f = parent
			owner = parent
		}
		a, ok := fv.(*ssa.Alloc)
		if !ok {
			return nil
		}
		cell = a
	default:
		return nil
	}
	// exactly one store to the cell in the owning function, none elsewhere (closures write through free vars)
	var target *ssa.Function
	n := 0
	for _, b := range owner.Blocks {
		for _, ins := range b.Instrs {
			if st, ok := ins.(*ssa.Store); ok && st.Addr == cell {
				n++
				if mc, ok := st.Val.(*ssa.MakeClosure); ok {
					target, _ = mc.Fn.(*ssa.Function)
				} else if c, ok := st.Val.(*ssa.Const); ok && c.Value == nil {
					n-- // "var f func()" zero initialisation
				}
			}
		}
	}
	for _, an := range owner.AnonFuncs {
		if writesFreeVarOf(an, cell, owner) {
			return nil
		}
	}
	if n != 1 {
		return nil
	}
	return target
}

// writesFreeVarOf: some literal nested in owner stores to the captured cell.
func writesFreeVarOf(f *ssa.Function, cell *ssa.Alloc, owner *ssa.Function) bool {
	for _, b := range f.Blocks {
		for _, ins := range b.Instrs {
			if st, ok := ins.(*ssa.Store); ok {
				if fv, ok := st.Addr.(*ssa.FreeVar); ok && fv.Name() == cell.Comment {
					return true
				}
			}
		}
	}
	for _, an := range f.AnonFuncs {
		if writesFreeVarOf(an, cell, owner) {
			return true
		}
	}
	return false
}
