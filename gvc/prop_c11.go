package main

// C11 ownership obligations (structural, from the whole-program write analysis):
//  own:cell     a concurrent entry (the sink action closure) stores to no variable captured from
//               the declaring evaluation;
//  own:shared   no function reachable from an evaluation stores to the interpreter structures that
//               all invocations share (runtime components, AST nodes, tokens, the runtime provider,
//               function objects), unless the field is guarded by a declared lock.

import (
	"fmt"
	"go/types"
	"sort"
	"strings"
	"time"

	"golang.org/x/tools/go/ssa"
)

func isSharedInterpStruct(arr string) bool {
	if !strings.HasPrefix(arr, "H_") {
		return false
	}
	body := strings.TrimPrefix(arr, "H_")
	i := strings.LastIndex(body, ".")
	if i < 0 {
		return false
	}
	tn := body[:i]
	switch {
	case strings.HasPrefix(tn, "interpreter.") && strings.HasSuffix(tn, "Runtime"):
		return true
	case tn == "parser.ASTNode" || tn == "parser.LexToken" || tn == "interpreter.ECALRuntimeProvider" || tn == "interpreter.function" || tn == "parser.metaData":
		return true
	}
	return false
}

func (mi *ModInfo) reachableFrom(roots []*ssa.Function, stop func(*ssa.Function) bool) map[*ssa.Function]bool {
	seen := map[*ssa.Function]bool{}
	var stack []*ssa.Function
	stack = append(stack, roots...)
	for len(stack) > 0 {
		f := stack[len(stack)-1]
		stack = stack[:len(stack)-1]
		if seen[f] || (stop != nil && stop(f)) {
			continue
		}
		seen[f] = true
		for c := range mi.Callees[f] {
			stack = append(stack, c)
		}
	}
	return seen
}

func c11Extra(c *Checker) {
	w := c.W
	w.immutableArr("")
	mi := w.Mod
	// own:cell for every function marked concurrent_entry
	var keys []string
	for k, fc := range w.CS.Funcs {
		if fc.Concurrent {
			keys = append(keys, k)
		}
	}
	sort.Strings(keys)
	for _, k := range keys {
		f := w.Funcs[k]
		if f == nil || f.Blocks == nil {
			c.engineErr = append(c.engineErr, "concurrent_entry contract for missing function "+k)
			continue
		}
		e := c.structEnc(f)
		n := 0
		fvName := func(r string) (string, int) {
			var i int
			fmt.Sscanf(r, "fv:%d", &i)
			return f.FreeVars[i].Name(), i
		}
		// directFV: v is the captured variable itself or the value currently stored in it
		directFV := func(v ssa.Value) (string, bool) {
			if u, ok := v.(*ssa.UnOp); ok {
				v = u.X
			}
			for _, fv := range f.FreeVars {
				if v == ssa.Value(fv) {
					return fv.Name(), true
				}
			}
			return "", false
		}
		for _, b := range f.Blocks {
			for _, ins := range b.Instrs {
				switch x := ins.(type) {
				case *ssa.Store:
					for r := range rootsOf(x.Addr) {
						if !strings.HasPrefix(r, "fv:") {
							continue
						}
						name, i := fvName(r)
						n++
						if x.Addr == ssa.Value(f.FreeVars[i]) {
							c.addStruct(e, "own", "cell:"+name, x.Pos(), false, fmt.Sprintf("the concurrently invoked closure assigns the variable %q of the enclosing function: overlapping invocations share it", name))
						} else {
							c.addStruct(e, "own", "via:"+name, x.Pos(), false, fmt.Sprintf("the concurrently invoked closure writes an object reached through the captured variable %q", name))
						}
					}
				case *ssa.MapUpdate:
					if mi.pathGuarded(x.Map, 0) {
						continue
					}
					for r := range rootsOf(x.Map) {
						if strings.HasPrefix(r, "fv:") {
							name, _ := fvName(r)
							n++
							c.addStruct(e, "own", "via:"+name, x.Pos(), false, fmt.Sprintf("the concurrently invoked closure updates a map reached through the captured variable %q: overlapping invocations share it", name))
						}
					}
				}
				ci, ok := ins.(ssa.CallInstruction)
				if !ok {
					continue
				}
				cc := ci.Common()
				if bi, ok := cc.Value.(*ssa.Builtin); ok {
					if (bi.Name() == "delete" || bi.Name() == "append" || bi.Name() == "copy") && !mi.pathGuarded(cc.Args[0], 0) {
						for r := range rootsOf(cc.Args[0]) {
							if strings.HasPrefix(r, "fv:") {
								name, _ := fvName(r)
								n++
								c.addStruct(e, "own", "via:"+name, ins.Pos(), false, fmt.Sprintf("the concurrently invoked closure modifies (%s) a container reached through the captured variable %q", bi.Name(), name))
							}
						}
					}
					continue
				}
				// a captured value handed directly to a callee that writes through that parameter
				var targets []*ssa.Function
				args := cc.Args
				if cc.IsInvoke() {
					targets = mi.implMethods(cc.Value.Type(), cc.Method)
					args = append([]ssa.Value{cc.Value}, cc.Args...)
				} else if callee := cc.StaticCallee(); callee != nil && callee.Blocks != nil {
					targets = []*ssa.Function{callee}
				}
				for ai, a := range args {
					name, ok := directFV(a)
					if !ok {
						continue
					}
					switch a.Type().Underlying().(type) {
					case *types.Map, *types.Slice, *types.Pointer:
					default:
						continue // interface values (scopes, runtimes) synchronise themselves; checked by their own contracts
					}
					for _, t := range targets {
						if mi.writesThrough == nil {
							mi.computeGlobalWrites()
						}
						if mi.writesThrough[t]["p:"+itoa(ai)] {
							n++
							c.addStruct(e, "own", "handed:"+name, ins.Pos(), false, fmt.Sprintf("the captured variable %q is handed to %s, which writes through that parameter: overlapping invocations share the object", name, funcKey(t)))
							break
						}
					}
				}
			}
		}
		c.addStruct(e, "own", "cell-scan", f.Pos(), true, fmt.Sprintf("all stores of %s compared with its %d captured variables (%d stores into captured state)", k, len(f.FreeVars), n))
	}
	sharedScan(c, keys)
}

// sharedFieldPath: the access path of v passes through a field of a shared interpreter structure;
// returns "Type.field".
func sharedFieldPath(v ssa.Value, depth int) string {
	if v == nil || depth > 12 {
		return ""
	}
	switch x := v.(type) {
	case *ssa.FieldAddr:
		pt := x.X.Type().Underlying().(*types.Pointer).Elem()
		st := pt.Underlying().(*types.Struct)
		arr := fieldArrName(pt, st, x.Field)
		if isSharedInterpStruct(arr) && !isLocalAlloc(x.X) {
			return strings.TrimPrefix(arr, "H_")
		}
		return sharedFieldPath(x.X, depth+1)
	case *ssa.UnOp:
		return sharedFieldPath(x.X, depth+1)
	case *ssa.IndexAddr:
		return sharedFieldPath(x.X, depth+1)
	case *ssa.Lookup:
		return sharedFieldPath(x.X, depth+1)
	case *ssa.Slice:
		return sharedFieldPath(x.X, depth+1)
	case *ssa.Extract:
		return sharedFieldPath(x.Tuple, depth+1)
	}
	return ""
}

// sharedScan: own:shared obligations over the cone of evaluation (used by C11 and C13).
func sharedScan(c *Checker, keys []string) {
	w := c.W
	w.immutableArr("")
	mi := w.Mod
	var evalRoots, setupRoots []*ssa.Function
	for _, f := range w.FuncList {
		if f.Signature.Recv() == nil {
			continue
		}
		switch f.Name() {
		case "Eval", "Run":
			if implementsNamed(w, f, "parser.Runtime") || implementsNamed(w, f, "util.ECALFunction") {
				evalRoots = append(evalRoots, f)
			}
		case "Validate":
			if implementsNamed(w, f, "parser.Runtime") {
				setupRoots = append(setupRoots, f)
			}
		}
	}
	for _, k := range keys {
		if f := w.Funcs[k]; f != nil {
			evalRoots = append(evalRoots, f)
		}
	}
	isSetup := map[*ssa.Function]bool{}
	for f := range mi.reachableFrom(setupRoots, nil) {
		isSetup[f] = true
	}
	stop := func(f *ssa.Function) bool {
		if fc := w.CS.Funcs[funcKey(f)]; fc != nil && fc.TrustedFrame {
			return true
		}
		return false
	}
	cone := mi.reachableFrom(evalRoots, stop)
	var cf []*ssa.Function
	for f := range cone {
		cf = append(cf, f)
	}
	sort.Slice(cf, func(i, j int) bool { return funcKey(cf[i]) < funcKey(cf[j]) })
	nScanned := 0
	var holder *enc
	for _, f := range cf {
		if f.Pkg == nil || !w.InRepo[f.Pkg] {
			continue
		}
		nScanned++
		var bad []string
		for a := range mi.Direct[f] {
			if isSharedInterpStruct(a) && !declaredGuarded(w, a) {
				bad = append(bad, a)
			}
		}
		// containers (maps, slices) that live in fields of shared structures
		type cw struct {
			ins  ssa.Instruction
			what string
		}
		var cws []cw
		for _, b := range f.Blocks {
			for _, ins := range b.Instrs {
				var operand ssa.Value
				how := ""
				switch x := ins.(type) {
				case *ssa.MapUpdate:
					operand, how = x.Map, "map update"
				case *ssa.Store:
					if ia, ok := x.Addr.(*ssa.IndexAddr); ok {
						operand, how = ia.X, "element store"
					}
				case ssa.CallInstruction:
					if bi, ok := x.Common().Value.(*ssa.Builtin); ok && (bi.Name() == "delete") {
						operand, how = x.Common().Args[0], bi.Name()
					}
				}
				if operand == nil || mi.pathGuarded(operand, 0) {
					continue
				}
				if fp := sharedFieldPath(operand, 0); fp != "" && !declaredGuarded(w, "H_"+fp) {
					cws = append(cws, cw{ins, how + " on " + fp})
				}
			}
		}
		if len(bad) == 0 && len(cws) == 0 {
			continue
		}
		sort.Strings(bad)
		e := c.structEnc(f)
		for _, x := range cws {
			if isSetup[f] && (f.Name() == "Validate" || !isEvalRoot(evalRoots, f)) {
				continue
			}
			c.addStruct(e, "own", "shared-container", x.ins.Pos(), false, fmt.Sprintf("%s is reachable from an evaluation and performs a %s, a container shared by all concurrent invocations, without a declared lock", funcKey(f), x.what))
		}
		for _, a := range bad {
			name := strings.TrimPrefix(a, "H_")
			if isSetup[f] && (f.Name() == "Validate" || !isEvalRoot(evalRoots, f)) {
				c.addStruct(e, "own", "shared:"+name+":setup", f.Pos(), true, "written while a tree is validated, i.e. before it is evaluated or shared (assumption listed)")
				c.Notes = append(c.Notes, funcKey(f)+" writes "+name+" during Validate: assumed to run before the tree is shared between threads")
				continue
			}
			c.addStruct(e, "own", "shared:"+name, f.Pos(), false, fmt.Sprintf("%s is reachable from an evaluation and stores to %s, a structure shared by all concurrent invocations, without a declared lock", funcKey(f), name))
		}
	}
	if f := w.Funcs["interpreter.(*sinkRuntime).Eval"]; f != nil {
		holder = c.structEnc(f)
		c.addStruct(holder, "own", "shared-scan", f.Pos(), true, fmt.Sprintf("%d functions reachable from %d evaluation entry points (Runtime.Eval / ECALFunction.Run implementers and concurrent entries; parser entry points taken by their trusted frame) scanned for stores to shared interpreter structures", nScanned, len(evalRoots)))
	} else {
		c.engineErr = append(c.engineErr, "interpreter.(*sinkRuntime).Eval not found")
	}
}

func isEvalRoot(roots []*ssa.Function, f *ssa.Function) bool {
	for _, r := range roots {
		if r == f {
			return true
		}
	}
	return false
}

func declaredGuarded(w *World, arr string) bool {
	body := strings.TrimPrefix(arr, "H_")
	i := strings.LastIndex(body, ".")
	if i < 0 {
		return false
	}
	td := w.CS.Types[body[:i]]
	if td == nil {
		return false
	}
	_, ok := td.GuardedBy[body[i+1:]]
	return ok
}

// implementsNamed: f is a method whose receiver type implements the named interface ("pkg.Iface").
func implementsNamed(w *World, f *ssa.Function, name string) bool {
	parts := strings.SplitN(name, ".", 2)
	p := w.TPkgs[parts[0]]
	if p == nil {
		return false
	}
	tn, ok := p.Scope().Lookup(parts[1]).(*types.TypeName)
	if !ok {
		return false
	}
	iface, ok := tn.Type().Underlying().(*types.Interface)
	if !ok {
		return false
	}
	rt := f.Signature.Recv().Type()
	return types.Implements(rt, iface)
}

const c11ReplaySrc = `package interpreter

import (
	"fmt"
	"strings"
	"sync"
	"testing"

	"github.com/krotik/ecal/engine"
	"github.com/krotik/ecal/parser"
	"github.com/krotik/ecal/scope"
	"github.com/krotik/ecal/util"
)

func TestVerifReplay(t *testing.T) {
	erp := NewECALRuntimeProvider("replay", nil, util.NewMemoryLogger(10))
	src := ` + "`" + `
sink s
    kindmatch [ "a" ],
    {
        x := 0
        for i in range(1, 30) { x := x + i }
        if event.state.fail { raise(event.state.id, "detail") }
    }
` + "`" + `
	ast, err := parser.ParseWithRuntime("replay", src, erp)
	if err != nil {
		t.Fatal(err)
	}
	if err = ast.Runtime.Validate(); err != nil {
		t.Fatal(err)
	}
	vs := scope.NewScope(scope.GlobalScope)
	if _, err = ast.Runtime.Eval(vs, make(map[string]interface{}), 1); err != nil {
		t.Fatal(err)
	}
	erp.Processor.ThreadPool().SetWorkerCount(8, false)
	erp.Processor.Start()
	defer erp.Processor.Finish()
	var mu sync.Mutex
	wrong := 0
	first := ""
	var wg sync.WaitGroup
	for g := 0; g < 8; g++ {
		wg.Add(1)
		go func(g int) {
			defer wg.Done()
			for i := 0; i < 300; i++ {
				id := fmt.Sprintf("%d-%d", g, i)
				fail := (g+i)%2 == 0
				ev := engine.NewEvent("e"+id, []string{"a"}, map[interface{}]interface{}{"fail": fail, "id": id})
				m, err := erp.Processor.AddEventAndWait(ev, nil)
				got := ""
				if err == nil && m != nil {
					for _, e := range m.(*engine.RootMonitor).AllErrors() {
						got += e.Error()
					}
				}
				ok := (fail && strings.Contains(got, "): "+id+" (")) || (!fail && got == "")
				if fail && strings.Count(got, "ECAL error") > 1 {
					ok = false
				}
				if !ok {
					mu.Lock()
					wrong++
					if first == "" {
						first = fmt.Sprintf("event %s fail=%v reported: %q", id, fail, got)
					}
					mu.Unlock()
				}
			}
		}(g)
	}
	wg.Wait()
	fmt.Printf("REPLAY-WRONG %d %s\nREPLAY-DONE\n", wrong, first)
}
`

var c11ReplayCache map[string]interface{}

// c11Replay: 8 goroutines x 300 events through one sink on 8 workers under the race detector; every
// event's error report is compared with the outcome dictated by its payload.
func c11Replay(c *Checker, o *Obl) map[string]interface{} {
	if !strings.Contains(o.ID, "sinkRuntime") {
		return nil
	}
	if c11ReplayCache == nil {
		rp := map[string]interface{}{"confirmed": false, "replay": "sched: 2400 overlapping invocations of one sink on 8 workers under the Go race detector; per-event expected error vs. RootMonitor.AllErrors()"}
		run := runOverlayTestFlags(c.W.Repo, "interpreter", c11ReplaySrc, c.Dir, 180*time.Second, "-race")
		rp["replay_output"] = truncate(run.Out, 3000)
		var wrong int
		if i := strings.Index(run.Out, "REPLAY-WRONG"); i >= 0 {
			fmt.Sscanf(run.Out[i:], "REPLAY-WRONG %d", &wrong)
		}
		race := strings.Contains(run.Out, "WARNING: DATA RACE") && strings.Contains(run.Out, "interpreter/rt_sink.go")
		switch {
		case wrong > 0:
			rp["outcome"] = fmt.Sprintf("%d events were reported with an outcome that is not their own", wrong)
			rp["confirmed"] = true
		case race:
			rp["outcome"] = "race detector: DATA RACE between two invocations of the sink action (frames in interpreter/rt_sink.go)"
			rp["confirmed"] = true
		case strings.Contains(run.Out, "REPLAY-DONE"):
			rp["outcome"] = "all 2400 events reported their own outcome, no race in the sink action"
		default:
			rp["outcome"] = "replay did not run to completion"
		}
		c11ReplayCache = rp
	}
	rp := map[string]interface{}{}
	for k, v := range c11ReplayCache {
		rp[k] = v
	}
	return rp
}
