package main

import (
	"fmt"
	"go/types"
	"regexp"
	"sort"
	"strings"
	"time"

	"golang.org/x/tools/go/ssa"
)

func c15Extra(c *Checker) {
	condExtra(c, "interpreter")
	c.W.immutableArr("")
	scopeReadOnly(c)
	// transparency: the visit hooks write nothing that is reachable from the node and scope they are shown
	w := c.W
	w.immutableArr("")
	if w.Mod.writesThrough == nil {
		w.Mod.computeGlobalWrites()
	}
	for _, k := range []string{"interpreter.(*ecalDebugger).VisitState", "interpreter.(*ecalDebugger).VisitStepInState", "interpreter.(*ecalDebugger).VisitStepOutState"} {
		f := w.Funcs[k]
		if f == nil {
			c.engineErr = append(c.engineErr, k+" not found")
			continue
		}
		e := c.structEnc(f)
		var bad []string
		for r := range w.Mod.writesThrough[f] {
			if r == "p:01" || r == "p:02" { // node, vs (p:00 is the debugger itself)
				bad = append(bad, map[string]string{"p:01": "node", "p:02": "vs"}[r])
			}
		}
		sort.Strings(bad)
		c.addStruct(e, "frame", "observes-only", f.Pos(), len(bad) == 0, fmt.Sprintf("%s writes nothing reachable from the AST node and the scope it is shown (lock protected scope data excluded); written through: %v", k, bad))
	}
}

// scopeReadOnly: the visit hooks and the debugger helpers they call use only reading methods of the scope.
func scopeReadOnly(c *Checker) {
	w := c.W
	allowed := map[string]bool{"Name": true, "Parent": true, "ToJSONObject": true, "GetValue": true, "String": true}
	var roots []*ssa.Function
	for _, k := range []string{"interpreter.(*ecalDebugger).VisitState", "interpreter.(*ecalDebugger).VisitStepInState", "interpreter.(*ecalDebugger).VisitStepOutState"} {
		if f := w.Funcs[k]; f != nil {
			roots = append(roots, f)
		}
	}
	cone := w.Mod.reachableFrom(roots, func(f *ssa.Function) bool {
		// stay inside the debugger: methods of ecalDebugger / interrogationState and their literals
		k := funcKey(f)
		return !(strings.Contains(k, "ecalDebugger") || strings.Contains(k, "interrogationState"))
	})
	n := 0
	var holder *enc
	var fs []*ssa.Function
	for f := range cone {
		fs = append(fs, f)
	}
	sort.Slice(fs, func(i, j int) bool { return funcKey(fs[i]) < funcKey(fs[j]) })
	for _, f := range fs {
		var e *enc
		for _, b := range f.Blocks {
			for _, ins := range b.Instrs {
				ci, ok := ins.(ssa.CallInstruction)
				if !ok || !ci.Common().IsInvoke() {
					continue
				}
				if types.TypeString(ci.Common().Value.Type(), qualName) != "parser.Scope" {
					continue
				}
				n++
				m := ci.Common().Method.Name()
				if e == nil {
					e = c.structEnc(f)
					if holder == nil {
						holder = e
					}
				}
				if !allowed[m] {
					c.addStruct(e, "frame", "scope-read-only:"+m, ins.Pos(), false, fmt.Sprintf("%s calls Scope.%s while visiting: the debugger changes the debugged program's variables", funcKey(f), m))
				}
			}
		}
	}
	if holder != nil {
		c.addStruct(holder, "frame", "scope-read-only-scan", holder.f.Pos(), true, fmt.Sprintf("%d calls of parser.Scope methods in the %d debugger functions reachable from the visit hooks compared with the reading methods %v", n, len(fs), []string{"GetValue", "Name", "Parent", "String", "ToJSONObject"}))
	}
}

const c15ReplaySrc = `package interpreter

import (
	"fmt"
	"go/types"
	"sync/atomic"
	"testing"
	"time"

	"github.com/krotik/ecal/parser"
	"github.com/krotik/ecal/scope"
	"github.com/krotik/ecal/util"
)

func TestVerifReplay(t *testing.T) {
	erp := NewECALRuntimeProvider("replay", nil, util.NewMemoryLogger(10))
	vs := scope.NewScope(scope.GlobalScope)
	dbg := NewECALDebugger(vs)
	erp.Debugger = dbg
	src := "for i in range(1, 1500) {\n    a := 1\n    b := 2\n}\n"
	ast, err := parser.ParseWithRuntime("replay", src, erp)
	if err != nil {
		t.Fatal(err)
	}
	if err = ast.Runtime.Validate(); err != nil {
		t.Fatal(err)
	}
	dbg.SetBreakPoint("replay", 2)
	dbg.SetBreakPoint("replay", 3)
	tid := erp.NewThreadID()
	var done int32
	go func() {
		ast.Runtime.Eval(vs, make(map[string]interface{}), tid)
		atomic.StoreInt32(&done, 1)
	}()
	start := time.Now()
	for atomic.LoadInt32(&done) == 0 && time.Since(start) < 15*time.Second {
		dbg.Continue(tid, util.Resume)
	}
	if atomic.LoadInt32(&done) == 1 {
		fmt.Printf("REPLAY-FINISHED in %v\nREPLAY-DONE\n", time.Since(start))
		return
	}
	// the thread made no progress for the rest of the 15 s although continue commands kept coming
	fmt.Printf("REPLAY-STALL status=%v\nREPLAY-DONE\n", dbg.Status())
}
`

var c15ReplayCache map[string]interface{}

// c15Replay: a thread runs a loop with breakpoints on two alternating lines while the controller issues
// Continue(tid, Resume) without pause; 3000 suspensions must all be released.
func c15Replay(c *Checker, o *Obl) map[string]interface{} {
	if o.Class != "cond" && !strings.Contains(o.ID, "interrogationState.running") {
		return nil
	}
	if c15ReplayCache == nil {
		rp := map[string]interface{}{"confirmed": false, "replay": "sched: 3000 suspensions of one thread under a continuous stream of Continue(tid, Resume) commands, 15 s watchdog"}
		run := runOverlayTestFlags(c.W.Repo, "interpreter", c15ReplaySrc, c.Dir, 120*time.Second, "")
		rp["replay_output"] = truncate(run.Out, 1500)
		switch {
		case strings.Contains(run.Out, "REPLAY-STALL"):
			line := run.Out[strings.Index(run.Out, "REPLAY-STALL"):]
			if j := strings.Index(line, "\n"); j >= 0 {
				line = line[:j]
			}
			rp["outcome"] = "the thread stopped making progress although continue commands kept coming: " + truncate(line, 300)
			rp["confirmed"] = true
		case strings.Contains(run.Out, "REPLAY-FINISHED"):
			rp["outcome"] = "all suspensions were released"
		default:
			rp["outcome"] = "replay did not run to completion"
		}
		c15ReplayCache = rp
	}
	rp := map[string]interface{}{}
	for k, v := range c15ReplayCache {
		rp[k] = v
	}
	return rp
}

func init() {
	registerProp(&PropSpec{ID: "C15", Title: "Debugging only observes: same outcome, and every suspended thread can be resumed", MinObls: 40, Extra: c15Extra, Replay: c15Replay,
		Classes:     regexp.MustCompile(`^(lock|cond|assert|pre|post|frame|inv|own)`),
		TrustedBase: []string{"native model of sync.RWMutex, sync.Mutex and sync.Cond", "structural wait/signal discipline (gvc/cond.go)"},
		Assumptions: []string{"soundness of the wait/signal discipline (DESIGN §7.4)", "lock-invariant reasoning for the debugger's tables"},
		NotDecided:  []string{"equality of timing dependent output between a debugged and a plain run (the relational statement is carried by frame conditions only)", "the precise suspension condition (breakpoint / step semantics)"}})
}
