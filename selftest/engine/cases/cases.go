// Package cases holds small functions whose contracts are deliberately right or wrong: the
// engine self-test (selftest/engine.sh) expects exactly the obligations listed in expect.txt to fail.
package cases

import (
	"encoding/json"
	"os"
	"sync"
)

type box struct {
	n    int
	data []int
}

// unchangedValueInvariant: the invariant speaks about a value the loop does not change and that
// does not hold on entry for every input (n may be negative).
func unchangedValueInvariant(n int, xs []int) int {
	s := 0
	for i := 0; i < len(xs); i++ {
		s += xs[i]
	}
	return s + n
}

// unchangedHeapInvariant: the same through a field the loop does not write.
func unchangedHeapInvariant(b *box) int {
	s := 0
	for i := 0; i < len(b.data); i++ {
		s += b.data[i]
	}
	return s
}

// goodSum: everything about it is right (must be discharged completely).
func goodSum(xs []int) int {
	s := 0
	for i := 0; i < len(xs); i++ {
		if xs[i] > 0 {
			s++
		}
	}
	return s
}

// readFillsTheBuffer: after the read the buffer is not known to be zero.
func readFillsTheBuffer(f *os.File) byte {
	buf := make([]byte, 4)
	f.Read(buf)
	return buf[0]
}

// decoderWritesThroughThePointer
func decoderWritesThroughThePointer(data []byte) int {
	v := 7
	json.Unmarshal(data, &v)
	return v
}

// wrongOnOnePath
func wrongOnOnePath(x int) int {
	if x > 10 {
		return x
	}
	return 0
}

// undeclaredWrite: writes a field its frame does not list.
func undeclaredWrite(b *box) {
	b.n = 1
}

// callsUndeclaredWrite relies on the (wrong) frame.
func callsUndeclaredWrite(b *box) int {
	b.n = 5
	undeclaredWrite(b)
	return b.n
}

// notPreserved: the invariant holds on entry and breaks in the body.
func notPreserved(n int) int {
	i := 0
	for i < n {
		i += 2
	}
	return i
}

// wraps: in 64-bit arithmetic x+1 > x does not hold.
func wraps(x int) bool {
	return x+1 > x
}

func needsPositive(x int) int {
	return 100 / x
}

// breaksPrecondition
func breaksPrecondition(y int) int {
	return needsPositive(y)
}

var limit = 5
var other = 2
var moving = 1

func bump() { moving++ }

// usesLimit relies on the global invariant about limit.
func usesLimit(x int) int {
	if x < limit {
		return x
	}
	return limit
}

// assertedNotAssumed: the second assertion contradicts the first; both cannot be discharged.
func assertedNotAssumed(x int) int {
	y := x + 1
	z := y + 1
	return z
}

// missingKey: a lookup of a missing key yields the zero value, not an arbitrary one.
func missingKey(m map[string]int, k string) int {
	delete(m, k)
	return m[k]
}

// derefs a pointer that may be nil.
func deref(b *box) int {
	return b.n
}

// defSite: the invariant names a variable by its definition (x := ...), not a zero value.
func defSite(xs []int) int {
	n := len(xs) * 2
	s := 0
	for i := 0; i < n; i++ {
		s++
	}
	return s
}

// readsMoving: a variable that is written outside the initialisers changes across calls.
func readsMoving() int {
	a := moving
	bump()
	return moving - a
}

// lemmaOnlyDownstream: a lemma proved at a site is not available before it.
func lemmaOnlyDownstream(x int) int {
	y := needsPositive(x)
	z := needsPositive(x)
	return y + z
}

// ---- second batch: aliasing, effects through closures / interfaces / defers, arithmetic ----

func closureWrites() int {
	x := 1
	f := func() { x = 2 }
	f()
	return x
}

type setter interface{ set() }

func (b *box) set() { b.n = 9 }

func viaIface(s setter, b *box) int {
	b.n = 1
	s.set()
	return b.n
}

func deferredResult() (r int) {
	defer func() { r = 2 }()
	return 1
}

func sliceAlias(xs []int) int {
	ys := xs[:1]
	ys[0] = 5
	return xs[0]
}

func appendAlias(xs []int) int {
	if len(xs) == 0 {
		return 0
	}
	a := xs[0]
	_ = append(xs[:0], a+1)
	return xs[0] - a
}

func mapAlias(m map[string]int) int {
	n := m
	n["k"] = 3
	return m["k"]
}

func divTruncRight(x int) int { return x / 2 }
func divTruncWrong(x int) int { return x / 2 }
func remRight(x int) int      { return x % 2 }
func remWrong(x int) int      { return x % 2 }

func structCopy(b *box) int {
	a := *b
	a.n = 3
	return b.n
}

func pointerWrite(b *box) int {
	a := b
	a.n = 3
	return b.n
}

func commaOk(v interface{}) int {
	if s, ok := v.(string); ok {
		return len(s)
	}
	return -1
}

func shiftOut(x uint64) uint64 { return x << 64 }

func switchPhi(x int) int {
	r := 0
	switch {
	case x < 0:
		r = -1
	case x > 0:
		r = 1
	}
	return r
}

func rangeWrites(xs []int) int {
	for i := range xs {
		xs[i] = 0
	}
	if len(xs) > 0 {
		return xs[0]
	}
	return 0
}

func calleeWrites(b *box) { b.n = 4 }

func afterCall(b *box) int {
	b.n = 1
	calleeWrites(b)
	return b.n
}

// ---- third batch: strings, floats, loops with break, nested data ----

func strIndex(s string) byte {
	if len(s) > 2 {
		return s[2]
	}
	return 0
}

func strConcatLen(a, b string) int { return len(a + b) }

func floatAdd(x float64) bool { return x+1 > x }

func floatEq(x float64) bool { return x == x }

func breakLoop(xs []int) int {
	i := 0
	for i < len(xs) {
		if xs[i] < 0 {
			break
		}
		i++
	}
	return i
}

type node struct {
	next *node
	val  int
}

func twoNodes(a, b *node) int {
	a.val = 1
	b.val = 2
	return a.val
}

func nestedSlices(xss [][]int) int {
	if len(xss) > 1 && len(xss[0]) > 0 && len(xss[1]) > 0 {
		xss[1][0] = 7
		return xss[0][0]
	}
	return 0
}

func ifaceEq(a, b interface{}) bool { return a == b }

func convNarrow(x int) int8 { return int8(x) }

func uintSub(a, b uint) uint { return a - b }

func multiReturn(x int) (int, bool) {
	if x > 0 {
		return x, true
	}
	return 0, false
}

func usesMulti(x int) int {
	v, ok := multiReturn(x)
	if ok {
		return v
	}
	return 1
}

// ---- fourth batch: facts about values computed on one path must not constrain the other paths ----

func sliceGuard(xs []int, a, b int) int {
	if a >= 0 && a <= b && b <= len(xs) {
		return len(xs[a:b])
	}
	return -1
}

func makeGuard(n int) int {
	if n >= 0 {
		return len(make([]int, n))
	}
	return -1
}

func assertGuard(v interface{}) int {
	if _, ok := v.(string); ok {
		return len(v.(string))
	}
	return -1
}

func indexGuard(xs []int, i int) int {
	if i >= 0 && i < len(xs) {
		return xs[i]
	}
	return -1
}

func strSliceGuard(s string, a int) int {
	if a >= 0 && a <= len(s) {
		return len(s[a:])
	}
	return -1
}

func strSliceGuardTheory(s string, a int) int {
	if a >= 0 && a <= len(s) {
		return len(s[a:])
	}
	return -1
}

func derefGuard(b *box) int {
	if b != nil {
		return b.n
	}
	return -1
}

func mapGuard(m map[string]int) int {
	if m != nil {
		m["a"] = 1
		return 1
	}
	return -1
}

func convGuard(x int) int {
	if x >= 0 && x < 256 {
		return int(uint8(x))
	}
	return -1
}

// ---- fifth batch: contracts at call sites, frames, old(), struct values, arrays, ranges ----

type pair struct{ a, b int }

func setA(p *pair) { p.a = 7 }

func frameAtCallSite(p *pair) int {
	p.a = 1
	p.b = 2
	setA(p)
	return p.a*10 + p.b
}

func bumpA(p *pair) { p.a++ }

func oldInEnsures(p *pair) {
	bumpA(p)
	bumpA(p)
}

func structValue(p pair) pair {
	q := p
	q.a = 9
	return p
}

func arrayValue(a [3]int) int {
	b := a
	b[0] = 5
	return a[0]
}

func rangeMap(m map[string]int) int {
	n := 0
	for range m {
		n++
	}
	return n
}

func rangeString(s string) int {
	n := 0
	for range s {
		n++
	}
	return n
}

func recovered() (r int) {
	defer func() {
		if recover() != nil {
			r = -1
		}
	}()
	var m map[string]int
	m["x"] = 1
	return 1
}

func typedNil() error {
	var p *myErr
	return p
}

type myErr struct{}

func (*myErr) Error() string { return "e" }

func calleeRequires(xs []int) int { return xs[0] }

func guardedCall(xs []int) int {
	if len(xs) > 0 {
		return calleeRequires(xs)
	}
	return calleeRequires(xs)
}

func ptrToLocal() int {
	x := 1
	p := &x
	*p = 2
	return x
}

func loopWithCall(p *pair, n int) int {
	p.b = 3
	for i := 0; i < n; i++ {
		setA(p)
	}
	return p.b
}

func loopWithCallWrong(p *pair, n int) int {
	p.a = 3
	for i := 0; i < n; i++ {
		setA(p)
	}
	return p.a
}

// ---- sixth batch: loops and joins over the heap, dynamic calls, nested loops ----

func loopCallNoInvariant(p *pair, n int) int {
	p.a = 3
	for i := 0; i < n; i++ {
		setA(p)
	}
	return p.a
}

func joinHeap(p *pair, c bool) int {
	if c {
		p.a = 1
	}
	return p.a
}

type holder struct {
	fn func()
	n  int
}

func mkHolder(h *holder) { h.fn = func() { h.n = 9 } }

func (h *holder) run() int {
	h.n = 1
	h.fn()
	return h.n
}

func nestedLoops(n int) int {
	s := 0
	for i := 0; i < n; i++ {
		for j := 0; j < n; j++ {
			s++
		}
	}
	return s
}

func earlyReturn(xs []int) int {
	for i := 0; i < len(xs); i++ {
		if xs[i] == 0 {
			return i
		}
	}
	return -1
}

func labeled(xss [][]int) int {
	n := 0
outer:
	for i := 0; i < len(xss); i++ {
		for j := 0; j < len(xss[i]); j++ {
			if xss[i][j] < 0 {
				continue outer
			}
			if xss[i][j] == 0 {
				break outer
			}
			n++
		}
	}
	return n
}

func mapLoop(m map[string]int, keys []string) int {
	for _, k := range keys {
		m[k] = 1
	}
	return len(m)
}

func strBuild(n int) string {
	s := ""
	for i := 0; i < n; i++ {
		s += "x"
	}
	return s
}

func deleteKey(m map[string]int) bool {
	m["a"] = 1
	delete(m, "a")
	_, ok := m["a"]
	return ok
}

func useHolder(h *holder) int { mkHolder(h); return h.run() }

// ---- seventh batch: type invariants, nonnil fields, interface contracts ----

type acct struct {
	bal int
	log []int
}

func (a *acct) withdraw(n int) { a.bal -= n }

func (a *acct) deposit(n int) {
	if n > 0 {
		a.bal += n
	}
}

func readBal(a *acct) int { return a.bal }

func useAcct(a *acct) int { a.withdraw(1); a.deposit(1); return readBal(a) }

type shape interface{ area() int }

type sq struct{ s int }
type neg struct{}

func (q *sq) area() int { return q.s * q.s }
func (*neg) area() int  { return -1 }
func total(x shape) int { return x.area() }
func mkShapes() []shape { return []shape{&sq{2}, &neg{}} }

// ---- eighth batch: declarations that are assumed everywhere must be checked everywhere ----

type wrap struct{ p *pair }

func clearP(w *wrap) { w.p = nil }

func readP(w *wrap) int { return w.p.a }

type counter struct {
	mu sync.Mutex
	n  int
}

func (c *counter) inc() {
	c.mu.Lock()
	c.n++
	c.mu.Unlock()
}

func (c *counter) racy() { c.n++ }

func useCounter(c *counter, w *wrap) int { c.inc(); c.racy(); clearP(w); return readP(w) }

// ---- ninth batch: guarded containers must not leave their critical section ----

type reg struct {
	mu sync.Mutex
	m  map[string]int
}

func (r *reg) leak() map[string]int { return r.m }

func (r *reg) snapshot() map[string]int {
	r.mu.Lock()
	defer r.mu.Unlock()
	c := map[string]int{}
	for k, v := range r.m {
		c[k] = v
	}
	return c
}

func consume(m map[string]int) int { return len(m) }

func (r *reg) pass() int { return consume(r.m) }

func (r *reg) passLocked() int {
	r.mu.Lock()
	defer r.mu.Unlock()
	return consume(r.m)
}

func useReg(r *reg) int { return len(r.leak()) + len(r.snapshot()) + r.pass() + r.passLocked() }

// ---- tenth batch: a contract that is relied on must be proved by somebody ----

func untaggedLies(x int) int { return x }

func reliesOnUntagged(x int) int { return untaggedLies(x) }

// ---- eleventh batch: effects of callees without contracts ----

func incCell(p *int) { *p++ }

func cellThroughCall() int {
	x := 1
	incCell(&x)
	return x
}

func fillSlice(xs []int) {
	for i := range xs {
		xs[i] = 9
	}
}

func sliceThroughCall() int {
	xs := make([]int, 3)
	fillSlice(xs)
	return xs[0]
}

func putKey(m map[string]int) { m["k"] = 1 }

func mapThroughCall() int {
	m := map[string]int{}
	putKey(m)
	return len(m)
}

type chain struct {
	next *chain
	v    int
}

func setDeep(c *chain) { c.next.next.v = 5 }

func deepThroughCall(c *chain) int {
	c.next.next.v = 1
	setDeep(c)
	return c.next.next.v
}

func viaGo(p *pair) int {
	p.a = 1
	done := make(chan bool)
	go func() { p.a = 2; done <- true }()
	<-done
	return p.a
}

var hook func(*pair)

func viaGlobalFunc(p *pair) int {
	p.a = 1
	hook(p)
	return p.a
}

func setHook() { hook = func(p *pair) { p.a = 3 } }

// ---- twelfth batch: method values, interface-typed fields, variadics, copy ----

func (p *pair) bumpB() { p.b++ }

func methodValue(p *pair) int {
	p.b = 1
	f := p.bumpB
	f()
	return p.b
}

func methodExpr(p *pair) int {
	p.b = 1
	f := (*pair).bumpB
	f(p)
	return p.b
}

type wrapper struct{ s setter }

func viaField(w *wrapper, b *box) int {
	b.n = 1
	w.s.set()
	return b.n
}

func sum(xs ...int) int {
	t := 0
	for _, x := range xs {
		t += x
	}
	return t
}

func variadic() int { return sum(1, 2, 3) }

func copyBuiltin(dst, src []int) int {
	if len(dst) > 0 && len(src) > 0 {
		dst[0] = 1
		copy(dst, src)
		return dst[0]
	}
	return 1
}

func appendGrow(xs []int) int {
	ys := append(xs, 1)
	if len(xs) > 0 {
		ys[0] = 42
		return xs[0]
	}
	return 42
}

// ---- thirteenth batch: embedding, type switches, captured loop variables ----

type base struct{ n int }

func (b *base) setN() { b.n = 8 }

type derived struct {
	*base
	m int
}

type derivedVal struct {
	base
	m int
}

func promotedPtr(d *derived) int {
	d.n = 1
	d.setN()
	return d.n
}

func promotedVal(d *derivedVal) int {
	d.n = 1
	d.setN()
	return d.n
}

func embeddedAlias(d *derived, b *base) int {
	d.base.n = 1
	b.n = 2
	return d.n
}

func typeSwitch(v interface{}) int {
	switch x := v.(type) {
	case int:
		return x
	case string:
		return len(x)
	case nil:
		return -2
	}
	return -1
}

func capturedLoopVar(xs []int) int {
	var fs []func() int
	for i := range xs {
		fs = append(fs, func() int { return i })
	}
	if len(fs) > 0 {
		return fs[0]()
	}
	return 0
}

func shadow(x int) int {
	if x > 0 {
		x := x + 1
		_ = x
	}
	return x
}
