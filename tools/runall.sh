#!/bin/bash
# Runs the quick check of every claimed property against /repo and refreshes evidence/.
cd "$(dirname "$0")/.."
rc=0
selftest/engine.sh || { rc=1; echo "FAILED: engine self-test"; }
for id in $(python3 -c "import json; print(' '.join(c['property_id'] for c in json.load(open('MANIFEST.json'))['checks']))"); do
  ./check $id ${1:-quick} > /tmp/runall_$id.log 2>&1; st=$?
  tail -${2:-1} /tmp/runall_$id.log
  [ $st -eq 0 ] || { rc=1; echo "FAILED: $id"; grep "^FAILED-\|^ENGINE-ERROR" /tmp/runall_$id.log | cut -c1-400; cp /tmp/runall_$id.log /tmp/runall_failed_$id.log; }
  rm -f /tmp/runall_$id.log
done
rm -rf replays
python3-vt - <<'PY'
import json,jsonschema,glob
sch=json.load(open('/root/.vp/EVIDENCE.schema.json'))
for f in sorted(glob.glob('/verif/evidence/*.json')):
    d=json.load(open(f)); jsonschema.validate(d,sch)
    c=d['coverage']
    assert c['obligations']==c['discharged'], f
jsonschema.validate(json.load(open('/verif/MANIFEST.json')),json.load(open('/root/.vp/MANIFEST.schema.json')))
print('evidence + manifest valid')
PY
exit $rc
