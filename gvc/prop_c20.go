package main

import (
	"fmt"
	"path/filepath"
	"regexp"
	"strings"
	"time"
)

func init() {
	registerProp(&PropSpec{ID: "C20", Title: "A packed executable always finds and runs its embedded program", MinObls: 25,
		SafeFns: regexp.MustCompile(`^tool\.findPackMarker$`),
		Classes: regexp.MustCompile(`^(pre|post|inv|dec|assert|finding|frame|safe:(index|slice|makelen|nil|nil-recv|nil-func|div|assert-type))`),
		TrustedBase: []string{
			"(*os.File).ReadAt (spec/extern.gvc): returns bytes of a fixed file content fbyte(f, i), n < len(b) only with an error; the executable is not modified while it is scanned",
			"strings.Index returns the first match (spec/extern.gvc, stated over smatch with its definitional axiom)",
			"archive/zip: a written archive is read back member by member, byte-identically, from a section that starts at its first byte; its first byte ('P') is neither white space nor a control character",
			"io.Copy, (*os.File).WriteString and zip.Writer append to the target file in call order",
		},
		Assumptions: []string{
			"the interpreter binary does not itself contain the complete marker \"\\n####ECALSRC####\\n\" (the reader takes the first occurrence; the marker text is built at run time so that it is not a literal of the binary)",
			"freadable(f): reads of the running executable fail only at its end",
		},
		NotDecided: []string{
			"byte-identical recovery of the packed files rests on archive/zip (trusted); proved here: each member is stored under its archive name, the entry member is the one evaluated, the reader is handed the section from the position the scanner returns to the end of the file",
			"termination of the scan (each block advances by b1 > 0 and a full block implies more file: not mechanised)",
			"end-to-end behaviour is additionally swept with a stated bound (coverage.bounded): never counted as proved",
		}})
	propSpecs["C20"].Replay = c20Replay
	propSpecs["C20"].Extra = c20Extra
}

// The sweep packs a small project (entry file, nested imports) onto source "binaries" of every
// length in the range with three kinds of filler and starts the result through RunPackedBinary.
const c20SweepSrc = `package tool

import (
	"bytes"
	"flag"
	"fmt"
	"io/ioutil"
	"os"
	"path/filepath"
	"testing"
)

func verifPackAndRun(t *testing.T, dir string, src []byte) (code int, herr error, pnc interface{}) {
	srcBin := filepath.Join(dir, "source.bin")
	entry := filepath.Join(dir, "proj", "entry.ecal")
	dest := filepath.Join(dir, "dest.bin")
	if err := ioutil.WriteFile(srcBin, src, 0777); err != nil {
		t.Fatal(err)
	}
	clip := NewCLIPacker()
	clip.LogOut = &bytes.Buffer{}
	pdir := filepath.Join(dir, "proj")
	clip.Dir = &pdir
	clip.SourceBinary = &srcBin
	clip.TargetBinary = &dest
	clip.EntryFile = entry
	if err := clip.Pack(); err != nil {
		t.Fatal(err)
	}
	code = -1
	oe, oh, oa, os2 := osExit, handleError, osArgs, osStderr
	defer func() { osExit, handleError, osArgs, osStderr = oe, oh, oa, os2 }()
	osExit = func(c int) { code = c }
	handleError = func(err error) { herr = err }
	osArgs = []string{dest}
	osStderr = &bytes.Buffer{}
	func() {
		defer func() { pnc = recover() }()
		RunPackedBinary()
	}()
	return
}

func TestVerifReplay(t *testing.T) {
	dir, err := ioutil.TempDir("", "c20")
	if err != nil {
		t.Fatal(err)
	}
	defer os.RemoveAll(dir)
	os.MkdirAll(filepath.Join(dir, "proj", "sub", "deeper"), 0777)
	ioutil.WriteFile(filepath.Join(dir, "proj", "entry.ecal"), []byte("import \"sub/lib.ecal\" as lib\nimport \"sub/deeper/lib2.ecal\" as lib2\nimport \"big.ecal\" as big\nlib.f() + lib2.g() + big.h()"), 0777)
	// a member larger than any single read of the archive reader, with its function at the very end
	var bigSrc bytes.Buffer
	for i := 0; bigSrc.Len() < 150000; i++ {
		fmt.Fprintf(&bigSrc, "# line %%d of a long file\n", i*7919)
	}
	bigSrc.WriteString("func h() { return 0 }")
	ioutil.WriteFile(filepath.Join(dir, "proj", "big.ecal"), bigSrc.Bytes(), 0777)
	ioutil.WriteFile(filepath.Join(dir, "proj", "sub", "lib.ecal"), []byte("func f() { return 3 }"), 0777)
	ioutil.WriteFile(filepath.Join(dir, "proj", "sub", "deeper", "lib2.ecal"), []byte("func g() { return 4 }"), 0777)
	ioutil.WriteFile(filepath.Join(dir, "proj", "empty.txt"), nil, 0777)
	bin := make([]byte, 256)
	for i := range bin {
		bin[i] = byte(i)
	}
	ioutil.WriteFile(filepath.Join(dir, "proj", "sub", "bytes.bin"), bin, 0777)
	flag.CommandLine = flag.NewFlagSet(os.Args[0], flag.ContinueOnError)

	full := %t
	period := 4096
	var lens []int
	if full {
		for n := 0; n <= 2*period+64; n++ {
			lens = append(lens, n)
		}
	} else {
		for n := 0; n <= 48; n++ {
			lens = append(lens, n)
		}
		for k := 1; k <= 2; k++ {
			for n := k*period - 48; n <= k*period+48; n++ {
				lens = append(lens, n)
			}
		}
	}
	runs, bad := 0, 0
	for _, fill := range []string{"a", "#", "\n####ECALSRC###", " \n"} {
		for _, n := range lens {
			src := bytes.Repeat([]byte(fill), n/len(fill)+1)[:n]
			code, herr, pnc := verifPackAndRun(t, dir, src)
			runs++
			if code != 7 || herr != nil || pnc != nil {
				bad++
				if bad <= 6 {
					fmt.Printf("SWEEP-FAIL binary=%%d bytes of %%q: exit callback code=%%d (want 7; -1 = not reached) error=%%v panic=%%v\n", n, fill, code, herr, pnc)
				}
			}
		}
	}
	// a project file that cannot be read must make Pack fail, wherever it stands in the directory order
	for _, where := range []string{"a-dangling", "sub/z-dangling", "sub/deeper/a-dangling"} {
		link := filepath.Join(dir, "proj", filepath.FromSlash(where))
		os.Symlink(filepath.Join(dir, "nowhere"), link)
		srcBin := filepath.Join(dir, "source.bin")
		dest := filepath.Join(dir, "dest.bin")
		clip := NewCLIPacker()
		clip.LogOut = &bytes.Buffer{}
		pdir := filepath.Join(dir, "proj")
		clip.Dir, clip.SourceBinary, clip.TargetBinary = &pdir, &srcBin, &dest
		clip.EntryFile = filepath.Join(pdir, "entry.ecal")
		runs++
		if err := clip.Pack(); err == nil {
			bad++
			fmt.Printf("SWEEP-FAIL project with the unreadable file %%s (dangling link): Pack reported success, the archive lacks the file\n", where)
		}
		os.Remove(link)
	}
	fmt.Printf("SWEEP-DONE runs=%%d bad=%%d lengths=%%d fills=4\n", runs, bad, len(lens))
}
`

type c20Sweep struct {
	out       string
	runs, bad int
	done      bool
}

var c20Cache = map[bool]*c20Sweep{}

func c20RunSweep(c *Checker, full bool) *c20Sweep {
	if s := c20Cache[full]; s != nil {
		return s
	}
	to := 120 * time.Second
	if full {
		to = 1800 * time.Second
	}
	run := runOverlayTestFlags(c.W.Repo, filepath.Join("cli", "tool"), fmt.Sprintf(c20SweepSrc, full), c.Dir, to, "")
	s := &c20Sweep{out: run.Out}
	if l := lineOf(run.Out, "SWEEP-DONE "); l != "" {
		fmt.Sscanf(strings.TrimPrefix(l, "SWEEP-DONE "), "runs=%d bad=%d", &s.runs, &s.bad)
		s.done = true
	}
	c20Cache[full] = s
	return s
}

func c20FailLines(out string) []string {
	var ls []string
	for _, l := range strings.Split(out, "\n") {
		if strings.HasPrefix(l, "SWEEP-FAIL ") {
			ls = append(ls, strings.TrimPrefix(l, "SWEEP-FAIL "))
		}
	}
	return ls
}

// c20Replay: a failed obligation is replayed by the sweep of the real Pack / RunPackedBinary.
func c20Replay(c *Checker, o *Obl) map[string]interface{} {
	s := c20RunSweep(c, c.Tier == "thorough")
	rp := map[string]interface{}{"confirmed": false,
		"replay":        "cli/tool: Pack onto source binaries of every length in the sweep range (four fillers), then RunPackedBinary on the result; expected: exit callback reached with the entry file's value 7, no error, no panic",
		"replay_output": truncate(s.out, 3000)}
	if fl := c20FailLines(s.out); len(fl) > 0 {
		rp["confirmed"] = true
		rp["outcome"] = strings.Join(fl, "; ")
		rp["failing_input"] = fl[0]
	} else if !s.done {
		rp["outcome"] = "the sweep did not finish"
	} else {
		rp["outcome"] = fmt.Sprintf("no failing input among %d runs", s.runs)
	}
	return rp
}

// c20Extra: the bounded end-to-end sweep (stands beside the proof, never counted as proved).
func c20Extra(c *Checker) {
	if onlyRe != nil {
		return
	}
	full := c.Tier == "thorough"
	s := c20RunSweep(c, full)
	bound := "source binary lengths 0..48 and k*4096-48..k*4096+48 for k = 1, 2"
	if full {
		bound = "every source binary length 0..2*4096+64 (two full periods of the block geometry)"
	}
	b := map[string]interface{}{"label": "bounded", "check": "Pack + RunPackedBinary end to end on the real code (in-package test injected with go test -overlay)",
		"bound": bound + "; three projects with an unreadable file; fillers \"a\", \"#\", a marker prefix, white space; project with nested directories, an empty, a binary and a 150 kB file",
		"runs":  s.runs, "failures": s.bad, "finished": s.done}
	c.Bounded = append(c.Bounded, b)
	if !s.done {
		c.engineErr = append(c.engineErr, "C20 bounded sweep did not finish: "+truncate(s.out, 600))
		return
	}
	if s.bad > 0 {
		fl := c20FailLines(s.out)
		c.BoundedViol = append(c.BoundedViol, map[string]interface{}{"obligation": "C20#bounded:pack-and-run-sweep", "confirmed": true,
			"replay": b["check"], "bound": b["bound"], "outcome": strings.Join(fl, "; "), "failing_input": fl[0], "replay_output": truncate(s.out, 3000)})
	}
}
