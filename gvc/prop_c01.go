package main

import (
	"regexp"
	"strings"
	"time"
)

func init() {
	registerProp(&PropSpec{ID: "C01", Title: "Exactly the matching, in-scope, unsuppressed rules fire once per event", MinObls: 30,
		Classes:     regexp.MustCompile(`^(safe:(hash|index|slice|shift)|post|pre|assert|inv|dec|lock|frame)`),
		TrustedBase: []string{"64-bit vector semantics for the rule bit masks (shifts, masks, overflow exact)", "regexp.MatchString as a function of (pattern, text)"},
		Assumptions: []string{"strings.Split / sort.Sort contracts", "one task runs ProcessEvent sequentially (C02/C09)"},
		NotDecided:  []string{"that the recursive kind tree built by addRuleAtLevel files every pattern under its own path (inductive multiset invariant over an interface-typed heap tree)"}})
}

const c01ReplaySrc = `package engine

import (
	"fmt"
	"testing"
	"time"
)

func verifGuard(name string, f func()) {
	done := make(chan string, 1)
	go func() {
		defer func() {
			if r := recover(); r != nil {
				done <- fmt.Sprintf("PANIC %v", r)
			}
		}()
		f()
		done <- "ok"
	}()
	select {
	case r := <-done:
		fmt.Printf("REPLAY-CASE %s %s\n", name, r)
	case <-time.After(5 * time.Second):
		fmt.Printf("REPLAY-CASE %s HANG (no answer within 5s)\n", name)
	}
}

func TestVerifReplay(t *testing.T) {
	// many state rules on one kind: every one of them must match the event
	for _, n := range []int{63, 64, 65, 130} {
		n := n
		verifGuard(fmt.Sprintf("state-rules-%d", n), func() {
			idx := NewRuleIndex()
			for i := 0; i < n; i++ {
				idx.AddRule(&Rule{Name: fmt.Sprintf("r%d", i), KindMatch: []string{"a"}, ScopeMatch: []string{}, StateMatch: map[string]interface{}{"k": 1.0}})
			}
			got := idx.Match(NewEvent("e", []string{"a"}, map[interface{}]interface{}{"k": 1.0}))
			if len(got) != n {
				panic(fmt.Sprintf("WRONG: %d of %d rules matched", len(got), n))
			}
		})
	}
	// list / map values in rule state patterns and in event state
	verifGuard("statematch-list-value", func() {
		idx := NewRuleIndex()
		idx.AddRule(&Rule{Name: "r", KindMatch: []string{"a"}, ScopeMatch: []string{}, StateMatch: map[string]interface{}{"k": []interface{}{1.0}}})
	})
	verifGuard("event-state-list-value", func() {
		idx := NewRuleIndex()
		idx.AddRule(&Rule{Name: "r", KindMatch: []string{"a"}, ScopeMatch: []string{}, StateMatch: map[string]interface{}{"k": 1.0}})
		idx.Match(NewEvent("e", []string{"a"}, map[interface{}]interface{}{"k": []interface{}{1.0}}))
	})
	verifGuard("event-state-map-value", func() {
		idx := NewRuleIndex()
		idx.AddRule(&Rule{Name: "r", KindMatch: []string{"a"}, ScopeMatch: []string{}, StateMatch: map[string]interface{}{"k": 1.0}})
		idx.Match(NewEvent("e", []string{"a"}, map[interface{}]interface{}{"k": map[interface{}]interface{}{"x": 1.0}}))
	})
	fmt.Println("REPLAY-DONE")
}
`

var c01ReplayCache string

func c01Replay(c *Checker, o *Obl) map[string]interface{} {
	var want []string
	switch {
	case strings.Contains(o.ID, "safe:hash") && strings.Contains(o.ID, "addRule"):
		want = []string{"statematch-list-value"}
	case strings.Contains(o.ID, "safe:hash"):
		want = []string{"event-state-list-value", "event-state-map-value"}
	case strings.Contains(o.ID, "room-for-a-bit") || strings.Contains(o.ID, "rule-gets-a-bit") || strings.Contains(o.ID, "walks-the-bits") || strings.Contains(o.ID, "dec:loop2"):
		want = []string{"state-rules-63", "state-rules-64", "state-rules-65", "state-rules-130"}
	default:
		return nil
	}
	if c01ReplayCache == "" {
		run := runOverlayTestFlags(c.W.Repo, "engine", c01ReplaySrc, c.Dir, 90*time.Second, "")
		c01ReplayCache = run.Out + " "
	}
	rp := map[string]interface{}{"confirmed": false, "replay": "engine: rule sets and events built from the failing site's path condition, run on the real RuleIndex with a panic guard and a 5 s watchdog", "replay_output": truncate(c01ReplayCache, 2000)}
	var outs []string
	for _, l := range strings.Split(c01ReplayCache, "\n") {
		for _, w := range want {
			if strings.HasPrefix(l, "REPLAY-CASE "+w+" ") {
				outs = append(outs, l)
				if !strings.HasSuffix(l, " ok") {
					rp["confirmed"] = true
				}
			}
		}
	}
	rp["outcome"] = strings.Join(outs, "; ")
	return rp
}

func init() { propSpecs["C01"].Replay = c01Replay }
