package main

// Whole-program facts recomputed from the SSA on every run:
//  - constructor-only ("immutable") struct fields: every store to the field targets an object
//    allocated in the storing activation and the field's address never escapes;
//  - per function, the heap arrays it may write on objects that are not fresh in its own
//    activation, closed over the call graph (static callees, class-hierarchy resolution of
//    interface calls, address-taken functions for dynamic calls).
// Declared frames ("assigns" clauses) replace the inferred set at call sites and are checked
// against it for functions that are not trusted.

import (
	"go/types"
	"sort"
	"strings"

	"golang.org/x/tools/go/ssa"
)

type ModInfo struct {
	Mutable       map[string]string          // field array -> first witness of a non-constructor write
	Writers       map[string]map[string]bool // array -> functions with a direct non-fresh store to it
	Fields        map[string]bool            // all field arrays seen
	Direct        map[*ssa.Function]map[string]bool
	Trans         map[*ssa.Function]map[string]bool
	Callees       map[*ssa.Function]map[*ssa.Function]bool
	addrTaken     []*ssa.Function
	writesThrough map[*ssa.Function]map[string]bool
	sites         map[*ssa.Function][]rootedSite
	calls         map[*ssa.Function][]rootedCall
	w             *World
	// direct writes to slice elements, attributed to the struct field the slice was loaded from
	// ("" = unknown origin): f -> Elems array -> origins
	ElemsOrig map[*ssa.Function]map[string]map[string]bool
	noteElems func(arr string, slice ssa.Value)
}

// sliceOrigin: the struct field array a slice value was loaded from ("" when unknown).
func sliceOrigin(v ssa.Value, depth int) string {
	if depth > 6 {
		return ""
	}
	switch x := v.(type) {
	case *ssa.UnOp:
		if fa, ok := x.X.(*ssa.FieldAddr); ok {
			pt := fa.X.Type().Underlying().(*types.Pointer).Elem()
			return fieldArrName(pt, pt.Underlying().(*types.Struct), fa.Field)
		}
	case *ssa.Slice:
		return sliceOrigin(x.X, depth+1)
	case *ssa.Call:
		if b, ok := x.Call.Value.(*ssa.Builtin); ok && b.Name() == "append" {
			return sliceOrigin(x.Call.Args[0], depth+1)
		}
	case *ssa.Phi:
		o := ""
		for i, e := range x.Edges {
			oe := sliceOrigin(e, depth+1)
			if i > 0 && oe != o {
				return ""
			}
			o = oe
		}
		return o
	}
	return ""
}

func sortOfType(t types.Type) string {
	switch u := t.Underlying().(type) {
	case *types.Basic:
		switch {
		case u.Info()&types.IsBoolean != 0:
			return "Bool"
		case u.Info()&types.IsInteger != 0:
			return "ISort"
		case u.Info()&types.IsString != 0:
			return "Str"
		case u.Info()&types.IsFloat != 0:
			return "F64"
		case u.Kind() == types.UntypedNil:
			return "Iface"
		case u.Kind() == types.UnsafePointer:
			return "Ref"
		}
		return "ISort"
	case *types.Pointer, *types.Map, *types.Signature, *types.Chan:
		return "Ref"
	case *types.Interface:
		return "Iface"
	case *types.Slice:
		return "Slice"
	case *types.Struct, *types.Array:
		return "SV"
	case *types.Tuple:
		return "TUPLE"
	}
	return "Ref"
}

func arrElems(el types.Type) string { return "Elems_" + sname(types.TypeString(el, qualName)) }
func arrCell(el types.Type) string  { return "Cell_" + sname(types.TypeString(el, qualName)) }
func arrMapBase(mt *types.Map) string {
	return "Map_" + sortOfType(mt.Key()) + "_" + sortOfType(mt.Elem())
}
func arrGlobal(g *ssa.Global) string { return "Glob_" + sname(g.Pkg.Pkg.Name()+"."+g.Name()) }

func isLocalAlloc(v ssa.Value) bool {
	switch x := v.(type) {
	case *ssa.Alloc:
		return true
	case *ssa.FieldAddr:
		return isLocalAlloc(x.X)
	case *ssa.IndexAddr:
		return isLocalAlloc(x.X)
	case *ssa.MakeMap, *ssa.MakeSlice:
		return true
	case *ssa.Slice:
		return isLocalAlloc(x.X)
	case *ssa.Call:
		if b, ok := x.Call.Value.(*ssa.Builtin); ok && b.Name() == "new" {
			return true
		}
	}
	return false
}

func fieldArrName(pt types.Type, st *types.Struct, i int) string {
	return "H_" + sname(types.TypeString(pt, qualName)) + "." + st.Field(i).Name()
}

// structArrays: all field arrays of a struct type (nested by-value structs included).
func structArrays(t types.Type, out map[string]bool, d int) {
	st, ok := t.Underlying().(*types.Struct)
	if !ok || d > 3 {
		return
	}
	for i := 0; i < st.NumFields(); i++ {
		ft := st.Field(i).Type()
		if _, isStruct := ft.Underlying().(*types.Struct); isStruct {
			structArrays(ft, out, d+1)
		} else {
			out[fieldArrName(t, st, i)] = true
		}
	}
}

// pointeeArrays: arrays that a write through a pointer of type *el may touch.
func pointeeArrays(el types.Type, out map[string]bool) {
	if _, isStruct := el.Underlying().(*types.Struct); isStruct {
		structArrays(el, out, 0)
		return
	}
	out[arrCell(el)] = true
}

func (w *World) computeModInfo() *ModInfo {
	mi := &ModInfo{Mutable: map[string]string{}, Writers: map[string]map[string]bool{}, Fields: map[string]bool{},
		Direct: map[*ssa.Function]map[string]bool{}, Trans: map[*ssa.Function]map[string]bool{}, Callees: map[*ssa.Function]map[*ssa.Function]bool{}, w: w, ElemsOrig: map[*ssa.Function]map[string]map[string]bool{}}
	markAll := func(t types.Type, why string) {
		m := map[string]bool{}
		structArrays(t, m, 0)
		for a := range m {
			if _, ok := mi.Mutable[a]; !ok {
				mi.Mutable[a] = why
			}
		}
	}
	// address-taken functions (candidates for dynamic calls)
	taken := map[*ssa.Function]bool{}
	for _, f := range w.FuncList {
		for _, b := range f.Blocks {
			for _, ins := range b.Instrs {
				var ops []*ssa.Value
				ops = ins.Operands(ops)
				for k, op := range ops {
					if op == nil || *op == nil {
						continue
					}
					if fn, ok := (*op).(*ssa.Function); ok {
						if ci, isCall := ins.(ssa.CallInstruction); isCall && k == 0 && ci.Common().Value == fn {
							continue
						}
						taken[fn] = true
					}
					if mc, ok := (*op).(*ssa.MakeClosure); ok {
						taken[mc.Fn.(*ssa.Function)] = true
					}
				}
				if mc, ok := ins.(*ssa.MakeClosure); ok {
					taken[mc.Fn.(*ssa.Function)] = true
				}
			}
		}
	}
	for f := range taken {
		if f.Blocks != nil && f.Pkg != nil && w.InRepo[f.Pkg] {
			mi.addrTaken = append(mi.addrTaken, f)
		}
	}
	sort.Slice(mi.addrTaken, func(i, j int) bool { return funcKey(mi.addrTaken[i]) < funcKey(mi.addrTaken[j]) })
	for _, f := range w.FuncList {
		key := funcKey(f)
		direct := map[string]bool{}
		callees := map[*ssa.Function]bool{}
		mi.Direct[f] = direct
		mi.Callees[f] = callees
		mi.noteElems = func(arr string, slice ssa.Value) {
			if mi.ElemsOrig[f] == nil {
				mi.ElemsOrig[f] = map[string]map[string]bool{}
			}
			if mi.ElemsOrig[f][arr] == nil {
				mi.ElemsOrig[f][arr] = map[string]bool{}
			}
			mi.ElemsOrig[f][arr][sliceOrigin(slice, 0)] = true
		}
		add := func(a string) {
			direct[a] = true
			if mi.Writers[a] == nil {
				mi.Writers[a] = map[string]bool{}
			}
			mi.Writers[a][key] = true
		}
		for _, b := range f.Blocks {
			for _, ins := range b.Instrs {
				switch x := ins.(type) {
				case *ssa.FieldAddr:
					pt := x.X.Type().Underlying().(*types.Pointer).Elem()
					st := pt.Underlying().(*types.Struct)
					arr := fieldArrName(pt, st, x.Field)
					mi.Fields[arr] = true
					ft := st.Field(x.Field).Type()
					_, isStructField := ft.Underlying().(*types.Struct)
					for _, r := range *x.Referrers() {
						switch u := r.(type) {
						case *ssa.Store:
							if u.Addr == x {
								if !isLocalAlloc(x.X) {
									why := key + " " + shortPos(w.Fset, u.Pos())
									if isStructField {
										markAll(ft, why)
									} else if _, ok := mi.Mutable[arr]; !ok {
										mi.Mutable[arr] = why
									}
								}
							} else if !isStructField {
								if _, ok := mi.Mutable[arr]; !ok {
									mi.Mutable[arr] = key + " (address escapes)"
								}
							}
						case *ssa.UnOp, *ssa.DebugRef:
						case *ssa.FieldAddr, *ssa.IndexAddr:
						default:
							if !isStructField {
								if _, ok := mi.Mutable[arr]; !ok {
									mi.Mutable[arr] = key + " " + shortPos(w.Fset, x.Pos()) + " (address escapes)"
								}
							} else if _, isCall := r.(ssa.CallInstruction); !isCall {
								markAll(ft, key+" (address of struct field escapes)")
							} else if n, ok := ft.(*types.Named); ok && n.Obj().Pkg() != nil && strings.HasPrefix(n.Obj().Pkg().Path(), repoModule) {
								markAll(ft, key+" (method call on struct field)")
							}
						}
					}
				case *ssa.Store:
					mi.storeEffects(x, add, markAll, key)
				case *ssa.MapUpdate:
					if !isLocalAlloc(x.Map) {
						mt := x.Map.Type().Underlying().(*types.Map)
						add(arrMapBase(mt) + ".has")
						add(arrMapBase(mt) + ".val")
						add("MapLen")
					}
				}
				if ci, ok := ins.(ssa.CallInstruction); ok {
					mi.callEffects(f, ci, add, callees, false)
				}
			}
		}
	}
	mi.noteElems = nil
	// declared trusted frames replace inference
	declared := func(f *ssa.Function) (map[string]bool, bool) {
		fc := w.CS.Funcs[funcKey(f)]
		if fc == nil || !fc.TrustedFrame {
			return nil, false
		}
		return map[string]bool{}, true // "assigns fresh"/"nothing" under trusted-frame: no visible writes
	}
	for _, f := range w.FuncList {
		t := map[string]bool{}
		if d, ok := declared(f); ok {
			t = d
		} else {
			for a := range mi.Direct[f] {
				t[a] = true
			}
		}
		mi.Trans[f] = t
	}
	for changed := true; changed; {
		changed = false
		for _, f := range w.FuncList {
			if _, ok := declared(f); ok {
				continue
			}
			t := mi.Trans[f]
			for c := range mi.Callees[f] {
				for a := range mi.Trans[c] {
					if !t[a] {
						t[a] = true
						changed = true
					}
				}
			}
		}
	}
	return mi
}

func (mi *ModInfo) storeEffects(x *ssa.Store, add func(string), markAll func(types.Type, string), key string) {
	pt, ok := x.Addr.Type().Underlying().(*types.Pointer)
	if !ok {
		return
	}
	el := pt.Elem()
	switch a := x.Addr.(type) {
	case *ssa.FieldAddr:
		if isLocalAlloc(a.X) {
			return
		}
		spt := a.X.Type().Underlying().(*types.Pointer).Elem()
		st := spt.Underlying().(*types.Struct)
		if _, isStruct := el.Underlying().(*types.Struct); isStruct {
			m := map[string]bool{}
			structArrays(el, m, 0)
			for k := range m {
				add(k)
			}
			return
		}
		add(fieldArrName(spt, st, a.Field))
	case *ssa.IndexAddr:
		if isLocalAlloc(a.X) {
			return
		}
		if _, isStruct := el.Underlying().(*types.Struct); isStruct {
			m := map[string]bool{}
			structArrays(el, m, 0)
			for k := range m {
				add(k)
			}
			return
		}
		add(arrElems(el))
		if mi.noteElems != nil {
			mi.noteElems(arrElems(el), a.X)
		}
	case *ssa.Global:
		add(arrGlobal(a))
	case *ssa.Alloc:
		// own local: invisible to callers
	case *ssa.FreeVar:
		m := map[string]bool{}
		pointeeArrays(el, m)
		for k := range m {
			add(k)
		}
	default:
		if _, isStruct := el.Underlying().(*types.Struct); isStruct {
			markAll(el, key+" "+shortPos(mi.w.Fset, x.Pos())+" (struct assignment)")
		}
		m := map[string]bool{}
		pointeeArrays(el, m)
		for k := range m {
			add(k)
		}
	}
}

func pkgPathOf(f *ssa.Function) string {
	if f.Pkg != nil {
		return f.Pkg.Pkg.Path()
	}
	if f.Object() != nil && f.Object().Pkg() != nil {
		return f.Object().Pkg().Path()
	}
	return ""
}

// atSite: the effects are wanted for the state after this very call (objects allocated by the caller
// count); otherwise for the caller's own effect summary (they do not).
func (mi *ModInfo) callEffects(f *ssa.Function, ci ssa.CallInstruction, add func(string), callees map[*ssa.Function]bool, atSite bool) {
	w := mi.w
	cc := ci.Common()
	if bi, ok := cc.Value.(*ssa.Builtin); ok {
		switch bi.Name() {
		case "append", "copy":
			if st, ok := cc.Args[0].Type().Underlying().(*types.Slice); ok {
				if bi.Name() == "copy" && isLocalAlloc(cc.Args[0]) {
					return
				}
				if _, isStruct := st.Elem().Underlying().(*types.Struct); isStruct {
					m := map[string]bool{}
					structArrays(st.Elem(), m, 0)
					for k := range m {
						add(k)
					}
				} else {
					add(arrElems(st.Elem()))
					if mi.noteElems != nil {
						mi.noteElems(arrElems(st.Elem()), cc.Args[0])
					}
				}
			}
		case "delete":
			if !isLocalAlloc(cc.Args[0]) {
				mt := cc.Args[0].Type().Underlying().(*types.Map)
				add(arrMapBase(mt) + ".has")
				add("MapLen")
			}
		}
		return
	}
	if cc.IsInvoke() {
		for _, m := range mi.implMethods(cc.Value.Type(), cc.Method) {
			callees[m] = true
		}
		return
	}
	callee := cc.StaticCallee()
	if callee == nil {
		// dynamic call: any address-taken repo function with an identical signature
		sig, _ := cc.Value.Type().Underlying().(*types.Signature)
		for _, g := range mi.addrTaken {
			if sig != nil && types.Identical(g.Signature, sig) {
				callees[g] = true
			}
		}
		return
	}
	if callee.Synthetic != "" {
		// bound method values and thunks (f := obj.method; f()): what runs is the declared method
		if obj, ok := callee.Object().(*types.Func); ok {
			if g := w.Prog.FuncValue(obj); g != nil {
				callee = g
			}
		}
	}
	if callee.Pkg != nil && w.InRepo[callee.Pkg] && callee.Blocks != nil {
		callees[callee] = true
		return
	}
	// library function: effects through pointer, interface and function arguments
	pp := pkgPathOf(callee)
	for _, a := range cc.Args {
		switch t := a.Type().Underlying().(type) {
		case *types.Pointer:
			if purePkgs[pp] && pp != "sync/atomic" && !ptrWriterPkgs[pp] {
				continue
			}
			if strings.HasPrefix(pp, "sync") && pp != "sync/atomic" {
				continue // lock objects: own state only
			}
			if isLocalAlloc(a) && !atSite {
				continue
			}
			m := map[string]bool{}
			pointeeArrays(t.Elem(), m)
			for k := range m {
				add(k)
			}
		case *types.Signature:
			if fn, ok := a.(*ssa.Function); ok {
				callees[fn] = true
			} else if mc, ok := a.(*ssa.MakeClosure); ok {
				callees[mc.Fn.(*ssa.Function)] = true
			} else {
				for _, g := range mi.addrTaken {
					if types.Identical(g.Signature, t) {
						callees[g] = true
					}
				}
			}
		case *types.Interface:
			if ptrWriterPkgs[pp] {
				// a decoder stores through the pointer inside the interface value
				if mi, ok := a.(*ssa.MakeInterface); ok {
					if pt, ok := mi.X.Type().Underlying().(*types.Pointer); ok && (atSite || !isLocalAlloc(mi.X)) {
						m := map[string]bool{}
						pointeeArrays(pt.Elem(), m)
						for k := range m {
							add(k)
						}
					}
				}
			}
			if t.NumMethods() == 0 || purePkgs[pp] {
				continue
			}
			// the library may call any method of the interface on a repo implementer
			for i := 0; i < t.NumMethods(); i++ {
				for _, m := range mi.implMethods(a.Type(), t.Method(i)) {
					callees[m] = true
				}
			}
		case *types.Slice:
			if (!purePkgs[pp] || sliceWriterPkgs[pp]) && (atSite || !isLocalAlloc(a)) {
				add(arrElems(t.Elem()))
			}
		}
	}
}

// implMethods: repo methods that an interface call may dispatch to.
// implMethodsRaw: like implMethods, but a promoted method is represented by its synthetic wrapper
// (which loads the embedded field and calls the declared method): the wrapper is what an invoke reaches.
func (mi *ModInfo) implMethodsRaw(it types.Type, m *types.Func) []*ssa.Function {
	var res []*ssa.Function
	for _, t := range mi.w.implementers(it) {
		ms := mi.w.Prog.MethodSets.MethodSet(t)
		sel := ms.Lookup(m.Pkg(), m.Name())
		if sel == nil {
			continue
		}
		fn := mi.w.Prog.MethodValue(sel)
		if fn == nil || fn.Blocks == nil {
			continue
		}
		if fn.Synthetic == "" && !(fn.Pkg != nil && mi.w.InRepo[fn.Pkg]) {
			continue
		}
		if fn.Synthetic != "" {
			// only wrappers of repository types
			if n, ok := derefNamed(t); !ok || n.Obj().Pkg() == nil || !strings.HasPrefix(n.Obj().Pkg().Path(), repoModule) {
				continue
			}
		}
		res = append(res, fn)
	}
	return res
}

func derefNamed(t types.Type) (*types.Named, bool) {
	if p, ok := t.(*types.Pointer); ok {
		t = p.Elem()
	}
	n, ok := t.(*types.Named)
	return n, ok
}

func (mi *ModInfo) implMethods(it types.Type, m *types.Func) []*ssa.Function {
	var res []*ssa.Function
	for _, t := range mi.w.implementers(it) {
		ms := mi.w.Prog.MethodSets.MethodSet(t)
		sel := ms.Lookup(m.Pkg(), m.Name())
		if sel == nil {
			continue
		}
		fn := mi.w.Prog.MethodValue(sel)
		if fn == nil {
			continue
		}
		// promoted methods are synthetic wrappers: follow to the declared method
		if fn.Synthetic != "" {
			if obj, ok := sel.Obj().(*types.Func); ok {
				if decl := mi.w.Prog.FuncValue(obj); decl != nil {
					fn = decl
				}
			}
		}
		if fn.Pkg != nil && mi.w.InRepo[fn.Pkg] && fn.Blocks != nil {
			res = append(res, fn)
		}
	}
	return res
}

func (mi *ModInfo) immutableFields() []string {
	var r []string
	for a := range mi.Fields {
		if _, m := mi.Mutable[a]; !m {
			r = append(r, a)
		}
	}
	sort.Strings(r)
	return r
}

// modOf: arrays a call of f may write on pre-existing objects (nil, false = unknown function).
func (mi *ModInfo) modOf(f *ssa.Function) (map[string]bool, bool) {
	t, ok := mi.Trans[f]
	return t, ok
}

// ---- writes to package-level state (C13) ----

type GlobalWrite struct {
	Fn     *ssa.Function
	Instr  ssa.Instruction
	Global string // pkg.var
	How    string // store | mapupdate | delete | append | call:<callee> | atomic
	Atomic bool
}

// root of an address/value: "g:<pkg.var>", "p:<index>", "fv:<index>" or "" (fresh/unknown).
func valueRoots(v ssa.Value, seen map[ssa.Value]bool, out map[string]bool) {
	if v == nil || seen[v] {
		return
	}
	seen[v] = true
	switch x := v.(type) {
	case *ssa.Global:
		out["g:"+x.Pkg.Pkg.Name()+"."+x.Name()] = true
	case *ssa.Parameter:
		for i, p := range x.Parent().Params {
			if p == x {
				out["p:"+itoa(i)] = true
			}
		}
	case *ssa.FreeVar:
		for i, p := range x.Parent().FreeVars {
			if p == x {
				out["fv:"+itoa(i)] = true
			}
		}
	case *ssa.UnOp:
		valueRoots(x.X, seen, out)
	case *ssa.FieldAddr:
		valueRoots(x.X, seen, out)
	case *ssa.Field:
		valueRoots(x.X, seen, out)
	case *ssa.IndexAddr:
		valueRoots(x.X, seen, out)
	case *ssa.Index:
		valueRoots(x.X, seen, out)
	case *ssa.Lookup:
		valueRoots(x.X, seen, out)
	case *ssa.Slice:
		valueRoots(x.X, seen, out)
	case *ssa.Phi:
		for _, e := range x.Edges {
			valueRoots(e, seen, out)
		}
	case *ssa.Extract:
		valueRoots(x.Tuple, seen, out)
	case *ssa.ChangeType:
		valueRoots(x.X, seen, out)
	case *ssa.ChangeInterface:
		valueRoots(x.X, seen, out)
	case *ssa.MakeInterface:
		valueRoots(x.X, seen, out)
	case *ssa.TypeAssert:
		valueRoots(x.X, seen, out)
	case *ssa.Convert:
		valueRoots(x.X, seen, out)
	case *ssa.Next:
		valueRoots(x.Iter, seen, out)
	case *ssa.Range:
		valueRoots(x.X, seen, out)
	case *ssa.Call:
		// append(x, ...) may return x's backing array
		if b, ok := x.Call.Value.(*ssa.Builtin); ok && b.Name() == "append" {
			valueRoots(x.Call.Args[0], seen, out)
		}
	}
}

func itoa(i int) string {
	return string(rune('0'+i/10)) + string(rune('0'+i%10))
}

func rootsOf(v ssa.Value) map[string]bool {
	out := map[string]bool{}
	valueRoots(v, map[ssa.Value]bool{}, out)
	return out
}

// pathGuarded: the access path of v passes through a field that is declared guarded_by a lock
// (the write is then the business of the lock:guard obligations, not of ownership).
func (mi *ModInfo) pathGuarded(v ssa.Value, depth int) bool {
	if v == nil || depth > 12 {
		return false
	}
	switch x := v.(type) {
	case *ssa.FieldAddr:
		pt := x.X.Type().Underlying().(*types.Pointer).Elem()
		if n, ok := pt.(*types.Named); ok && n.Obj().Pkg() != nil {
			if td := mi.w.CS.Types[n.Obj().Pkg().Name()+"."+n.Obj().Name()]; td != nil {
				if _, g := td.GuardedBy[pt.Underlying().(*types.Struct).Field(x.Field).Name()]; g {
					return true
				}
			}
		}
		return mi.pathGuarded(x.X, depth+1)
	case *ssa.UnOp:
		return mi.pathGuarded(x.X, depth+1)
	case *ssa.IndexAddr:
		return mi.pathGuarded(x.X, depth+1)
	case *ssa.Lookup:
		return mi.pathGuarded(x.X, depth+1)
	case *ssa.Slice:
		return mi.pathGuarded(x.X, depth+1)
	case *ssa.Extract:
		return mi.pathGuarded(x.Tuple, depth+1)
	case *ssa.TypeAssert:
		return mi.pathGuarded(x.X, depth+1)
	}
	return false
}

type rootedSite struct {
	ins    ssa.Instruction
	roots  map[string]bool
	how    string
	atomic bool
}

type rootedCall struct {
	ins    ssa.CallInstruction
	callee *ssa.Function
	param  string
	roots  map[string]bool
}

// RootedWrite: a write (direct or through a callee) into memory reachable from a parameter,
// a free variable or a package-level variable of function Fn.
type RootedWrite struct {
	Instr ssa.Instruction
	Root  string
	How   string
}

func (mi *ModInfo) rootedWrites(f *ssa.Function) []RootedWrite {
	if mi.sites == nil {
		mi.computeGlobalWrites()
	}
	var res []RootedWrite
	seen := map[string]bool{}
	add := func(ins ssa.Instruction, roots map[string]bool, how string) {
		for r := range roots {
			k := shortPos(mi.w.Fset, ins.Pos()) + r + how
			if !seen[k] {
				seen[k] = true
				res = append(res, RootedWrite{ins, r, how})
			}
		}
	}
	for _, s := range mi.sites[f] {
		if !s.atomic {
			add(s.ins, s.roots, s.how)
		}
	}
	for _, c := range mi.calls[f] {
		if mi.writesThrough[c.callee][c.param] {
			add(c.ins, c.roots, "call:"+funcKey(c.callee)+" writes through its "+c.param)
		}
	}
	sort.Slice(res, func(i, j int) bool {
		if res[i].Instr.Pos() != res[j].Instr.Pos() {
			return res[i].Instr.Pos() < res[j].Instr.Pos()
		}
		return res[i].Root+res[i].How < res[j].Root+res[j].How
	})
	return res
}

// computeGlobalWrites finds every write whose target is (reachable from) a package-level variable,
// following values into callees through parameters and closure bindings.
func (mi *ModInfo) computeGlobalWrites() map[*ssa.Function][]GlobalWrite {
	w := mi.w
	// writesThrough[f]["p:i"] = true if f may write memory reachable from that parameter / free variable
	writesThrough := map[*ssa.Function]map[string]bool{}
	type site = rootedSite
	sites := map[*ssa.Function][]site{}
	type callArg = rootedCall
	calls := map[*ssa.Function][]callArg{}
	mi.sites, mi.calls = sites, calls
	for _, f := range w.FuncList {
		writesThrough[f] = map[string]bool{}
		for _, b := range f.Blocks {
			for _, ins := range b.Instrs {
				switch x := ins.(type) {
				case *ssa.Store:
					if _, isAlloc := x.Addr.(*ssa.Alloc); isAlloc {
						continue
					}
					if mi.pathGuarded(x.Addr, 0) {
						continue
					}
					sites[f] = append(sites[f], site{ins, rootsOf(x.Addr), "store", false})
				case *ssa.MapUpdate:
					if mi.pathGuarded(x.Map, 0) {
						continue
					}
					sites[f] = append(sites[f], site{ins, rootsOf(x.Map), "mapupdate", false})
				}
				ci, ok := ins.(ssa.CallInstruction)
				if !ok {
					continue
				}
				cc := ci.Common()
				if bi, ok := cc.Value.(*ssa.Builtin); ok {
					switch bi.Name() {
					case "delete":
						if !mi.pathGuarded(cc.Args[0], 0) {
							sites[f] = append(sites[f], site{ins, rootsOf(cc.Args[0]), "delete", false})
						}
					case "append", "copy":
						// in-place element writes into an existing backing array
						if !mi.pathGuarded(cc.Args[0], 0) {
							sites[f] = append(sites[f], site{ins, rootsOf(cc.Args[0]), bi.Name(), false})
						}
					}
					continue
				}
				var targets []*ssa.Function
				if cc.IsInvoke() {
					targets = mi.implMethods(cc.Value.Type(), cc.Method)
				} else if callee := cc.StaticCallee(); callee != nil {
					if callee.Pkg != nil && w.InRepo[callee.Pkg] && callee.Blocks != nil {
						targets = []*ssa.Function{callee}
					} else {
						pp := pkgPathOf(callee)
						for _, a := range cc.Args {
							pt, isPtr := a.Type().Underlying().(*types.Pointer)
							if !isPtr {
								continue
							}
							if pp == "sync/atomic" {
								sites[f] = append(sites[f], site{ins, rootsOf(a), "call:" + funcKey(callee), true})
								continue
							}
							if purePkgs[pp] || strings.HasPrefix(pp, "sync") {
								continue
							}
							if n, ok := pt.Elem().(*types.Named); ok && n.Obj().Pkg() != nil && !strings.HasPrefix(n.Obj().Pkg().Path(), repoModule) {
								continue // library object: its own synchronisation (listed assumption)
							}
							sites[f] = append(sites[f], site{ins, rootsOf(a), "call:" + funcKey(callee), false})
						}
					}
				} else if sig, ok := cc.Value.Type().Underlying().(*types.Signature); ok {
					for _, g := range mi.addrTaken {
						if types.Identical(g.Signature, sig) {
							targets = append(targets, g)
						}
					}
				}
				for _, t := range targets {
					args := cc.Args
					if cc.IsInvoke() {
						args = append([]ssa.Value{cc.Value}, cc.Args...)
					}
					for i, a := range args {
						if i < len(t.Params) {
							calls[f] = append(calls[f], callArg{ci, t, "p:" + itoa(i), rootsOf(a)})
						}
					}
					// closure bindings
					if mc, ok := cc.Value.(*ssa.MakeClosure); ok {
						for i, bd := range mc.Bindings {
							calls[f] = append(calls[f], callArg{ci, t, "fv:" + itoa(i), rootsOf(bd)})
						}
					}
				}
			}
		}
	}
	for changed := true; changed; {
		changed = false
		for _, f := range w.FuncList {
			wt := writesThrough[f]
			mark := func(roots map[string]bool) {
				for r := range roots {
					if (strings.HasPrefix(r, "p:") || strings.HasPrefix(r, "fv:")) && !wt[r] {
						wt[r] = true
						changed = true
					}
				}
			}
			for _, s := range sites[f] {
				mark(s.roots)
			}
			for _, c := range calls[f] {
				if writesThrough[c.callee][c.param] {
					mark(c.roots)
				}
			}
		}
	}
	mi.writesThrough = writesThrough
	res := map[*ssa.Function][]GlobalWrite{}
	for _, f := range w.FuncList {
		seen := map[string]bool{}
		addW := func(ins ssa.Instruction, roots map[string]bool, how string, atomic bool) {
			for r := range roots {
				if strings.HasPrefix(r, "g:") {
					k := shortPos(w.Fset, ins.Pos()) + r + how
					if seen[k] {
						continue
					}
					seen[k] = true
					res[f] = append(res[f], GlobalWrite{Fn: f, Instr: ins, Global: strings.TrimPrefix(r, "g:"), How: how, Atomic: atomic})
				}
			}
		}
		for _, s := range sites[f] {
			addW(s.ins, s.roots, s.how, s.atomic)
		}
		for _, c := range calls[f] {
			if writesThrough[c.callee][c.param] {
				addW(c.ins, c.roots, "call:"+funcKey(c.callee), false)
			}
		}
	}
	return res
}

func isPtrType(t types.Type) bool {
	_, ok := t.Underlying().(*types.Pointer)
	return ok
}

// elemsOrigins: origins of all writes to the Elems array arr in f and everything it may call
// (declared trusted frames cut the walk, as in Trans).
func (mi *ModInfo) elemsOrigins(f *ssa.Function, arr string) map[string]string {
	res := map[string]string{}
	seen := map[*ssa.Function]bool{f: true}
	work := []*ssa.Function{f}
	for len(work) > 0 {
		g := work[0]
		work = work[1:]
		if fc := mi.w.CS.Funcs[funcKey(g)]; fc != nil && fc.TrustedFrame {
			continue
		}
		for o := range mi.ElemsOrig[g][arr] {
			if _, ok := res[o]; !ok {
				res[o] = funcKey(g)
			}
		}
		for c := range mi.Callees[g] {
			if !seen[c] {
				seen[c] = true
				work = append(work, c)
			}
		}
	}
	return res
}
