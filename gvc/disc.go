package main

// Discipline obligations (locks, ownership, global frame) hook into the encoder here.

import (
	"fmt"
	"strings"
	"golang.org/x/tools/go/ssa"
)

func (e *enc) storeHook(b *ssa.BasicBlock, i *ssa.Store, l loc, v string) {
	if l.kind == "field" && e.w.immutableArr(l.arr) {
		// immutable field: only objects allocated in this activation may be initialised
		goal := fmt.Sprintf("(>= (birth %s) %s)", l.ref, e.now(e.entry))
		e.addI("frame", "immutable:"+strings.TrimPrefix(l.arr, "H_"), i, e.reach[b], goal)
	}
}

func (e *enc) mapWriteHook(b *ssa.BasicBlock, ins ssa.Instruction, m string) {}

func (e *enc) callHook(ins ssa.Instruction, key string, callee *ssa.Function, R string) {}

func (e *enc) returnHook(b *ssa.BasicBlock, r *ssa.Return, R string) {}
