#!/bin/bash
# Engine self-test: a small module of deliberately right and wrong contracts (selftest/engine/cases).
# Exactly the obligations listed in selftest/engine/expect.txt must fail; everything else must be
# discharged. Guards the verifier itself against vacuity and unsound-encoding regressions
# (circular loop-entry proofs, library calls that leave buffers untouched, assumptions that leak
# backwards, dead paths ...). Run by tools/runall.sh before the property checks.
cd "$(dirname "$0")/.."
export GOFLAGS=-mod=mod GOPROXY=off GOSUMDB=off GOTOOLCHAIN=local
if [ ! -x bin/gvc ] || [ -n "$(find gvc -newer bin/gvc -name '*.go' 2>/dev/null | head -1)" ]; then
  (cd gvc && go build -o ../bin/gvc .) || { echo "ENGINE-SELFTEST cannot build gvc"; exit 2; }
fi
OUT=$(mktemp -d)
trap 'rm -rf "$OUT"' EXIT
VERIF_DIR=$OUT bin/gvc check -repo "$PWD/selftest/engine" -spec "$PWD/spec" ENGINE quick > $OUT/log 2>&1
grep "^FAILED-OBLIGATION" $OUT/log | awk '{print $2}' | sort > $OUT/got.txt
if diff -u selftest/engine/expect.txt $OUT/got.txt > $OUT/diff.txt; then
  echo "engine self-test: ok ($(wc -l < $OUT/got.txt) obligations fail as expected, $(grep -c . $OUT/log) lines)"
  exit 0
fi
echo "engine self-test: BAD (expected failures on the left, observed on the right)"; cat $OUT/diff.txt; tail -3 $OUT/log
exit 1
