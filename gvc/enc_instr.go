package main

import (
	"fmt"
	"go/token"
	"go/types"
	"math/big"
	"strings"

	"golang.org/x/tools/go/ssa"
)

func (e *enc) structFieldLoc(ref string, pt types.Type, st *types.Struct, i int) loc {
	ft := st.Field(i).Type()
	if _, isStruct := ft.Underlying().(*types.Struct); isStruct {
		return loc{kind: "struct", ref: fmt.Sprintf("(subobj %s %d)", ref, i), sort: "SV", t: ft}
	}
	if _, isArr := ft.Underlying().(*types.Array); isArr {
		return loc{kind: "array", ref: fmt.Sprintf("(subobj %s %d)", ref, i), sort: "SV", t: ft}
	}
	arr, fs := e.fieldArr(pt, st, i)
	return loc{kind: "field", arr: arr, ref: ref, sort: fs, t: ft}
}

// loadStruct returns an SV term whose fields equal the heap fields of the object at ref.
func (e *enc) loadStruct(ref string, t types.Type, st hstate, depth int) string {
	n := e.newName("sv")
	e.decl(n, "SV")
	s, ok := t.Underlying().(*types.Struct)
	if !ok || depth > 2 {
		return n
	}
	for i := 0; i < s.NumFields(); i++ {
		l := e.structFieldLoc(ref, t, s, i)
		switch l.kind {
		case "field":
			e.assume(fmt.Sprintf("(= %s %s)", e.fldGet(t, i, n), e.loadIn(l, st)))
		case "struct":
			e.assume(fmt.Sprintf("(= %s %s)", e.fldGet(t, i, n), e.loadStruct(l.ref, l.t, st, depth+1)))
		}
	}
	return n
}

func (e *enc) storeStruct(ref string, t types.Type, sv string, depth int) {
	s, ok := t.Underlying().(*types.Struct)
	if !ok || depth > 2 {
		return
	}
	for i := 0; i < s.NumFields(); i++ {
		l := e.structFieldLoc(ref, t, s, i)
		switch l.kind {
		case "field":
			e.store(l, e.fldGet(t, i, sv))
		case "struct":
			e.storeStruct(l.ref, l.t, e.fldGet(t, i, sv), depth+1)
		}
	}
}

func (e *enc) zeroStruct(ref string, t types.Type, depth int) {
	s, ok := t.Underlying().(*types.Struct)
	if !ok || depth > 2 {
		return
	}
	for i := 0; i < s.NumFields(); i++ {
		l := e.structFieldLoc(ref, t, s, i)
		switch l.kind {
		case "field":
			if z := e.zero(l.sort); z != "" {
				e.assume(fmt.Sprintf("(= %s %s)", e.load(l), z))
			}
		case "struct":
			e.zeroStruct(l.ref, l.t, depth+1)
		}
	}
}

func (e *enc) elemLoc(x ssa.Value, idx string, R string, ins ssa.Instruction) (loc, bool) {
	switch t := x.Type().Underlying().(type) {
	case *types.Slice:
		xs := e.val(x)
		e.addI("safe", "index", ins, R, fmt.Sprintf("(and %s %s)", e.ige0(idx), e.icmp(token.LSS, idx, "(len "+xs+")", false)))
		el := t.Elem()
		if _, isStruct := el.Underlying().(*types.Struct); isStruct {
			return loc{kind: "struct", ref: fmt.Sprintf("(elemobj (arr %s) %s)", xs, e.toInt(e.iadd("(off "+xs+")", idx))), sort: "SV", t: el}, true
		}
		return loc{kind: "elem", arr: "Elems_" + sname(types.TypeString(el, qualName)), ref: "(arr " + xs + ")", idx: e.iadd("(off "+xs+")", idx), sort: e.sortOf(el), t: el}, true
	case *types.Pointer:
		if at, ok := t.Elem().Underlying().(*types.Array); ok {
			xs := e.val(x)
			if !e.localAlloc[xs] {
				e.addI("safe", "nil", ins, R, fmt.Sprintf("(not (= %s 0))", xs))
			}
			e.addI("safe", "index", ins, R, fmt.Sprintf("(and %s %s)", e.ige0(idx), e.icmp(token.LSS, idx, e.ilit(at.Len()), false)))
			el := at.Elem()
			if _, isStruct := el.Underlying().(*types.Struct); isStruct {
				return loc{kind: "struct", ref: fmt.Sprintf("(elemobj %s %s)", xs, e.toInt(idx)), sort: "SV", t: el}, true
			}
			return loc{kind: "elem", arr: "Elems_" + sname(types.TypeString(el, qualName)), ref: xs, idx: idx, sort: e.sortOf(el), t: el}, true
		}
	}
	return loc{}, false
}

func (e *enc) toInt(x string) string {
	if e.bv {
		return "(bv2nat " + x + ")"
	}
	return x
}

func (e *enc) nonnilField(pt types.Type, fname string) bool {
	n, ok := pt.(*types.Named)
	if !ok {
		return false
	}
	td := e.w.CS.Types[n.Obj().Pkg().Name()+"."+n.Obj().Name()]
	if td == nil {
		return false
	}
	for _, f := range td.Nonnil {
		if f == fname {
			return true
		}
	}
	return false
}

func (e *enc) instr(b *ssa.BasicBlock, ins ssa.Instruction) {
	R := e.reach[b]
	switch i := ins.(type) {
	case *ssa.DebugRef, *ssa.Jump, *ssa.If:
	case *ssa.Go:
		e.goStmt(b, i)
	case *ssa.Defer:
		e.defers = append(e.defers, i)
		for _, a := range i.Call.Args {
			e.val(a)
		}
		e.val(i.Call.Value)
	case *ssa.RunDefers:
		e.runDefers(b, i)
	case *ssa.Return:
		e.ret(b, i)
	case *ssa.Panic:
		e.addI("safe", "panic", ins, R, "false")
	case *ssa.Alloc:
		n := e.havoc(i)
		e.allocFresh(n)
		el := i.Type().Underlying().(*types.Pointer).Elem()
		if !i.Heap || allocPrivate(i) || allocWrittenOnce(i) {
			pa := privAlloc{ref: n, arrs: map[string]bool{}}
			switch el.Underlying().(type) {
			case *types.Struct:
				structArrays(el, pa.arrs, 0)
			case *types.Array:
				pa.arrs[arrElems(el.Underlying().(*types.Array).Elem())] = true
			default:
				pa.arrs[arrCell(el)] = true
			}
			e.priv = append(e.priv, pa)
		}
		switch el.Underlying().(type) {
		case *types.Struct:
			e.locs[i] = loc{kind: "struct", ref: n, sort: "SV", t: el}
			e.zeroStruct(n, el, 0)
		case *types.Array:
			e.locs[i] = loc{kind: "array", ref: n, sort: "SV", t: el}
		default:
			l := e.cellLoc(n, el)
			e.locs[i] = l
			if z := e.zero(l.sort); z != "" {
				e.assume(fmt.Sprintf("(= %s %s)", e.load(l), z))
			}
		}
	case *ssa.FieldAddr:
		pt := i.X.Type().Underlying().(*types.Pointer).Elem()
		st := pt.Underlying().(*types.Struct)
		x := e.val(i.X)
		if !e.localAlloc[x] {
			e.addI("safe", "nil", ins, R, fmt.Sprintf("(not (= %s 0))", x))
		}
		l := e.structFieldLoc(x, pt, st, i.Field)
		e.locs[i] = l
		n := e.havoc(i)
		e.assume(fmt.Sprintf("(> %s 0)", n))
		if l.kind == "struct" || l.kind == "array" {
			e.assume(fmt.Sprintf("(= %s %s)", n, l.ref))
			if e.localAlloc[x] {
				e.localAlloc[n] = true
			}
			l.ref = n
			e.locs[i] = l
		}
	case *ssa.Field:
		x := e.val(i.X)
		e.define(i, e.fldGet(i.X.Type(), i.Field, x))
	case *ssa.IndexAddr:
		l, ok := e.elemLoc(i.X, e.val(i.Index), R, ins)
		n := e.havoc(i)
		e.assume(fmt.Sprintf("(> %s 0)", n))
		if ok {
			if l.kind == "struct" {
				e.assume(fmt.Sprintf("(= %s %s)", n, l.ref))
				l.ref = n
			}
			e.locs[i] = l
		} else {
			e.note("IndexAddr on " + i.X.Type().String())
		}
	case *ssa.Index:
		switch t := i.X.Type().Underlying().(type) {
		case *types.Basic: // string (only constant strings reach here in SSA), kept for completeness
			x := e.val(i.X)
			idx := e.val(i.Index)
			e.addI("safe", "index", ins, R, fmt.Sprintf("(and %s %s)", e.ige0(idx), e.icmp(token.LSS, idx, e.slenI(x), false)))
			e.define(i, e.strAt(x, idx))
		case *types.Array:
			idx := e.val(i.Index)
			e.addI("safe", "index", ins, R, fmt.Sprintf("(and %s %s)", e.ige0(idx), e.icmp(token.LSS, idx, e.ilit(t.Len()), false)))
			e.havoc(i)
		default:
			e.havoc(i)
		}
	case *ssa.UnOp:
		e.unop(b, i)
	case *ssa.BinOp:
		e.binop(b, i)
	case *ssa.Phi:
		if _, isHeader := e.headers[b]; isHeader {
			e.allocFacts(e.havoc(i), i.Type())
			return
		}
		if e.sortOf(i.Type()) == "TUPLE" {
			e.havoc(i)
			return
		}
		expr := ""
		for k := len(i.Edges) - 1; k >= 0; k-- {
			p := b.Preds[k]
			if e.reach[p] == "" {
				continue
			}
			v := e.val(i.Edges[k])
			if expr == "" {
				expr = v
				continue
			}
			expr = fmt.Sprintf("(ite (and %s %s) %s %s)", e.reach[p], e.edgeCond(p, b), v, expr)
		}
		e.define(i, expr)
		// propagate location info through phis of identical addresses (rare)
	case *ssa.Store:
		e.storeInstr(b, i)
	case *ssa.Lookup:
		e.lookup(b, i)
	case *ssa.MapUpdate:
		e.mapUpdate(b, i)
	case *ssa.Extract:
		t := e.val(i.Tuple)
		e.names[i] = fmt.Sprintf("%s.c%d", t, i.Index)
	case *ssa.Range:
		e.names[i] = "0"
		e.val(i.X)
		e.containerReadHook(b, i, i.X)
	case *ssa.Next:
		n := e.havoc(i)
		if !i.IsString {
			// key present in the map being ranged over, value is the stored one
			if rg, ok := i.Iter.(*ssa.Range); ok {
				if mt, ok := rg.X.Type().Underlying().(*types.Map); ok {
					ks, vs := e.sortOf(mt.Key()), e.sortOf(mt.Elem())
					e.harr("MapLen", "(Array Ref "+e.isort()+")")
					e.assume(fmt.Sprintf("(=> %s.c0 (and (not (= %s 0)) %s))", n, e.val(rg.X), e.icmp(token.GTR, "(select "+e.hname("MapLen")+" "+e.val(rg.X)+")", e.ilit(0), false)))
					if _, ok := e.valsNonnilOf(rg.X); ok {
						if t := nonnilTerm(vs, n+".c2"); t != "" && t != "true" {
							e.assume(fmt.Sprintf("(=> %s.c0 %s)", n, t))
						}
					}
					if ks == "Iface" {
						// a key found in a map is hashable
						e.assume(fmt.Sprintf("(=> %s.c0 (not (uncomparable %s.c1)))", n, n))
					}
					if mapSupported(ks, vs) {
						has, val := e.mapArrs(ks, vs)
						m := e.val(rg.X)
						e.assume(fmt.Sprintf("(=> %s.c0 (and (select (select %s %s) %s.c1) (= %s.c2 (select (select %s %s) %s.c1))))",
							n, e.hname(has), m, n, n, e.hname(val), m, n))
					}
				}
			}
		} else {
			if rg, ok := i.Iter.(*ssa.Range); ok {
				x := e.val(rg.X)
				e.assume(fmt.Sprintf("(=> %s.c0 (and %s %s))", n, e.ige0(n+".c1"), e.icmp(token.LSS, n+".c1", e.slenI(x), false)))
			}
		}
	case *ssa.MakeMap:
		n := e.havoc(i)
		e.allocFresh(n)
		mt := i.Type().Underlying().(*types.Map)
		ks, vs := e.sortOf(mt.Key()), e.sortOf(mt.Elem())
		if mapPrivate(i) && mapSupported(ks, vs) {
			// a map that never leaves the function before it is returned keeps its content across calls
			hasA, valA := e.mapArrs(ks, vs)
			e.harr("MapLen", "(Array Ref "+e.isort()+")")
			e.priv = append(e.priv, privAlloc{ref: n, arrs: map[string]bool{hasA: true, valA: true, "MapLen": true}})
		}
		if mapSupported(ks, vs) {
			has, _ := e.mapArrs(ks, vs)
			e.assume(fmt.Sprintf("(= (select %s %s) ((as const (Array %s Bool)) false))", e.hname(has), n, e.smtSort(ks)))
		}
		e.harr("MapLen", "(Array Ref "+e.isort()+")")
		e.assume(fmt.Sprintf("(= (select %s %s) %s)", e.hname("MapLen"), n, e.ilit(0)))
	case *ssa.MakeChan:
		n := e.havoc(i)
		e.allocFresh(n)
	case *ssa.MakeClosure:
		n := e.havoc(i)
		e.allocFresh(n)
		for _, bd := range i.Bindings {
			e.val(bd)
		}
	case *ssa.MakeSlice:
		n := e.havoc(i)
		ln := e.val(i.Len)
		e.addI("safe", "makelen", ins, R, e.ige0(ln))
		ar := e.newName("newarr")
		e.decl(ar, "Ref")
		e.allocFresh(ar)
		e.assume(fmt.Sprintf("(and (= (len %s) %s) (= (off %s) %s) (= (arr %s) %s) %s)", n, ln, n, e.ilit(0), n, ar, e.icmp(token.GEQ, "(cap "+n+")", "(len "+n+")", false)))
		// zeroed elements
		el := i.Type().Underlying().(*types.Slice).Elem()
		es := e.sortOf(el)
		if z := e.zero(es); z != "" {
			arr := "Elems_" + sname(types.TypeString(el, qualName))
			e.harr(arr, "(Array Ref (Array "+e.isort()+" "+e.smtSort(es)+"))")
			e.assume(fmt.Sprintf("(= (select %s %s) ((as const (Array %s %s)) %s))", e.hname(arr), ar, e.isort(), e.smtSort(es), z))
		}
	case *ssa.MakeInterface:
		if t, ok := e.taint[i.X]; ok {
			e.taint[i] = t // a boxed guarded container is still that container
		}
		if c, isC := i.X.(*ssa.Const); isC && c.Value == nil {
			if _, isPtr := i.X.Type().Underlying().(*types.Pointer); isPtr {
				// a literal typed nil pointer ((*T)(nil), e.g. for reflect.TypeOf): deliberately an interface
				// holding nil; it is outside the "no typed nil" convention and gets no such fact
				n := "t_" + i.Name()
				e.names[i] = n
				e.decl(n, "Iface")
				e.assume(fmt.Sprintf("(= %s %s)", n, e.mkIface("0", i.X.Type())))
				return
			}
		}
		n := e.havoc(i)
		x := e.val(i.X)
		if _, isPtr := i.X.Type().Underlying().(*types.Pointer); isPtr && !e.localAlloc[x] {
			// interfaces never hold typed nil pointers (global axiom): established here
			e.addI("safe", "typed-nil", i, R, fmt.Sprintf("(not (= %s 0))", x))
		}
		e.assume(fmt.Sprintf("(= %s %s)", n, e.mkIface(x, i.X.Type())))
	case *ssa.ChangeInterface:
		e.define(i, e.val(i.X))
	case *ssa.ChangeType:
		if e.sortOf(i.X.Type()) == e.sortOf(i.Type()) && e.sortOf(i.Type()) != "TUPLE" {
			e.define(i, e.val(i.X))
		} else {
			e.havoc(i)
		}
	case *ssa.Convert:
		e.convert(b, i)
	case *ssa.TypeAssert:
		x := e.val(i.X)
		test := e.typeTest(x, i.AssertedType)
		n := e.havoc(i)
		if i.CommaOk {
			if test != "" {
				e.assume(fmt.Sprintf("(= %s.c1 %s)", n, test))
				if pl := e.payload(x, i.AssertedType); pl != "" {
					e.assume(fmt.Sprintf("(=> %s.c1 (= %s.c0 %s))", n, n, pl))
				}
				if z := e.zero(e.sortOf(i.AssertedType)); z != "" {
					e.assume(fmt.Sprintf("(=> (not %s.c1) (= %s.c0 %s))", n, n, z))
				}
			}
		} else {
			if test != "" {
				e.addI("safe", "assert-type", ins, R, test)
				if pl := e.payload(x, i.AssertedType); pl != "" {
					e.assumeAt(R, fmt.Sprintf("(=> %s (= %s %s))", test, n, pl))
				}
			} else {
				e.addI("safe", "assert-type", ins, R, "false")
			}
		}
	case *ssa.Slice:
		e.sliceInstr(b, i)
	case *ssa.Send:
		e.val(i.Chan)
		e.val(i.X)
		e.note("channel send (unmodelled)")
	case *ssa.Call:
		e.call(b, i)
	case *ssa.Select:
		e.havoc(i)
		e.note("select (unmodelled)")
	default:
		e.note(fmt.Sprintf("instr %T", ins))
		if v, ok := ins.(ssa.Value); ok {
			e.havoc(v)
		}
	}
}

func mapSupported(ks, vs string) bool {
	return ks != "SV" && vs != "SV" && ks != "F64" && ks != "TUPLE" && ks != "Slice"
}

func (e *enc) mapArrs(ks, vs string) (string, string) {
	arr := "Map_" + ks + "_" + vs
	e.harr(arr+".has", fmt.Sprintf("(Array Ref (Array %s Bool))", e.smtSort(ks)))
	e.harr(arr+".val", fmt.Sprintf("(Array Ref (Array %s %s))", e.smtSort(ks), e.smtSort(vs)))
	return arr + ".has", arr + ".val"
}

func (e *enc) slenI(x string) string { return e.fromInt(e.slen(x)) }

// fromInt converts a mathematical Int term into the function's integer sort.
func (e *enc) fromInt(x string) string {
	if e.bv {
		return "((_ int2bv 64) " + x + ")"
	}
	return x
}

func (e *enc) strAt(x, idx string) string {
	if e.strTheory {
		// total: outside the string str.at is "" (code -1), which is no byte - a range fact about the
		// value would then contradict the definition and kill the paths that do not index at all
		i := e.toInt(idx)
		return e.fromInt(fmt.Sprintf("(ite (and (<= 0 %s) (< %s (str.len %s))) (str.to_code (str.at %s %s)) 0)", i, i, x, x, i))
	}
	return e.fromInt(fmt.Sprintf("(sat %s %s)", x, e.toInt(idx)))
}

func (e *enc) mkIface(x string, t types.Type) string {
	switch u := t.Underlying().(type) {
	case *types.Basic:
		switch e.sortOf(u) {
		case "Str":
			if types.Identical(t, types.Typ[types.String]) {
				return "(IStr " + x + ")"
			}
			return fmt.Sprintf("(INamedStr %d %s)", tid(t), x)
		case "Bool":
			return "(IBool " + x + ")"
		case "F64":
			if u.Kind() == types.Float64 && types.Identical(t, types.Typ[types.Float64]) {
				return "(IF64 " + x + ")"
			}
			return fmt.Sprintf("(IFlt %d %s)", tid(t), x)
		case "ISort":
			return fmt.Sprintf("(IInt %d %s)", tid(t), x)
		}
	case *types.Slice:
		return fmt.Sprintf("(ISlice %d %s)", tid(t), x)
	case *types.Map:
		return fmt.Sprintf("(IMap %d %s)", tid(t), x)
	case *types.Pointer, *types.Signature, *types.Chan:
		return fmt.Sprintf("(IPtr %d %s)", tid(t), x)
	case *types.Interface:
		return x
	case *types.Struct, *types.Array:
		return fmt.Sprintf("(IBox %d %s)", tid(t), x)
	}
	n := e.newName("iface")
	e.decl(n, "Iface")
	return n
}

func (e *enc) typeTest(x string, t types.Type) string {
	switch u := t.Underlying().(type) {
	case *types.Basic:
		switch e.sortOf(u) {
		case "Str":
			if types.Identical(t, types.Typ[types.String]) {
				return "(is-IStr " + x + ")"
			}
			return fmt.Sprintf("(and (is-INamedStr %s) (= (nstid %s) %d))", x, x, tid(t))
		case "Bool":
			return "(is-IBool " + x + ")"
		case "F64":
			if types.Identical(t, types.Typ[types.Float64]) {
				return "(is-IF64 " + x + ")"
			}
			return fmt.Sprintf("(and (is-IFlt %s) (= (ftid %s) %d))", x, x, tid(t))
		}
		return fmt.Sprintf("(and (is-IInt %s) (= (itid %s) %d))", x, x, tid(t))
	case *types.Slice:
		return fmt.Sprintf("(and (is-ISlice %s) (= (stid %s) %d))", x, x, tid(t))
	case *types.Map:
		return fmt.Sprintf("(and (is-IMap %s) (= (mtid %s) %d))", x, x, tid(t))
	case *types.Pointer, *types.Signature, *types.Chan:
		return fmt.Sprintf("(and (is-IPtr %s) (= (ptid %s) %d))", x, x, tid(t))
	case *types.Interface:
		if u.NumMethods() == 0 {
			return "(not (= " + x + " INil))"
		}
		impls := e.w.implementers(t)
		if len(impls) == 0 || len(impls) > 80 {
			fn := fmt.Sprintf("implements_%d", tid(t))
			e.declFun(fn, "(Iface) Bool")
			e.assume(fmt.Sprintf("(not (%s INil))", fn))
			return fmt.Sprintf("(%s %s)", fn, x)
		}
		var alts []string
		for _, it := range impls {
			alts = append(alts, e.typeTest(x, it))
		}
		if len(alts) == 1 {
			return alts[0]
		}
		return "(or " + strings.Join(alts, " ") + ")"
	}
	return fmt.Sprintf("(and (is-IBox %s) (= (btid %s) %d))", x, x, tid(t))
}

func (e *enc) payload(x string, t types.Type) string {
	switch u := t.Underlying().(type) {
	case *types.Basic:
		switch e.sortOf(u) {
		case "Str":
			if types.Identical(t, types.Typ[types.String]) {
				return "(istr " + x + ")"
			}
			return "(nstr " + x + ")"
		case "Bool":
			return "(ibool " + x + ")"
		case "F64":
			if types.Identical(t, types.Typ[types.Float64]) {
				return "(f64 " + x + ")"
			}
			return "(fltv " + x + ")"
		case "ISort":
			return "(iint " + x + ")"
		}
	case *types.Slice:
		return "(isl " + x + ")"
	case *types.Map:
		return "(imap " + x + ")"
	case *types.Pointer, *types.Signature, *types.Chan:
		return "(iptr " + x + ")"
	case *types.Interface:
		return x
	case *types.Struct, *types.Array:
		return "(bval " + x + ")"
	}
	return ""
}

func (e *enc) unop(b *ssa.BasicBlock, i *ssa.UnOp) {
	R := e.reach[b]
	switch i.Op {
	case token.MUL:
		x := e.val(i.X)
		l, ok := e.locs[i.X]
		if !ok {
			// load through a pointer value that is not a syntactic location: *T cell by type
			if !e.localAlloc[x] {
				e.addI("safe", "nil", i, R, fmt.Sprintf("(not (= %s 0))", x))
			}
			el := i.X.Type().Underlying().(*types.Pointer).Elem()
			l = e.cellLoc(x, el)
			if g, isG := i.X.(*ssa.Global); isG {
				_ = g
			}
		}
		switch l.kind {
		case "struct":
			e.define(i, e.loadStruct(l.ref, l.t, e.heap, 0))
		case "array":
			e.havoc(i)
		default:
			n := e.define(i, e.load(l))
			e.loadFacts(n, i, l)
			e.loadHook(b, i, n)
			if ia, ok := i.X.(*ssa.IndexAddr); ok {
				e.containerReadHook(b, i, ia.X)
			}
		}
	case token.NOT:
		e.define(i, "(not "+e.val(i.X)+")")
	case token.SUB:
		switch e.sortOf(i.Type()) {
		case "ISort":
			if e.bv {
				e.define(i, "(bvneg "+e.val(i.X)+")")
			} else {
				e.define(i, "(- "+e.val(i.X)+")")
			}
		case "F64":
			n := e.havoc(i)
			e.assume(fmt.Sprintf("(= (toFP %s) (fp.neg (toFP %s)))", n, e.val(i.X)))
		default:
			e.havoc(i)
		}
	case token.XOR:
		if e.bv {
			e.define(i, "(bvnot "+e.val(i.X)+")")
		} else {
			e.define(i, "(- (- "+e.val(i.X)+") 1)")
		}
	case token.ARROW:
		e.val(i.X)
		e.havoc(i)
		e.note("channel receive (unmodelled)")
	default:
		e.havoc(i)
	}
}

// loadFacts adds the universally valid facts about a value just loaded from the heap.
func (e *enc) loadFacts(n string, i *ssa.UnOp, l loc) {
	if l.sort == "Ref" && l.arr != "" {
		e.assume(e.allocatedIn(n, l.arr, e.heap, l.ref))
	}
	if l.sort == "Iface" && l.arr != "" {
		e.assume(fmt.Sprintf("(=> (is-IPtr %s) %s)", n, e.allocatedIn("(iptr "+n+")", l.arr, e.heap, l.ref)))
	}
	if l.sort == "Slice" && l.arr != "" {
		e.assume(e.allocatedIn("(arr "+n+")", l.arr, e.heap, l.ref))
	}
	if fa, ok := i.X.(*ssa.FieldAddr); ok {
		pt := fa.X.Type().Underlying().(*types.Pointer).Elem()
		st := pt.Underlying().(*types.Struct)
		if e.nonnilField(pt, st.Field(fa.Field).Name()) && !e.localAlloc[l.ref] {
			switch l.sort {
			case "Ref":
				e.assume(fmt.Sprintf("(not (= %s 0))", n))
			case "Iface":
				e.assume(fmt.Sprintf("(not (= %s INil))", n))
			}
		}
	}
}

func (e *enc) storeInstr(b *ssa.BasicBlock, i *ssa.Store) {
	R := e.reach[b]
	a := e.val(i.Addr)
	v := e.val(i.Val)
	l, ok := e.locs[i.Addr]
	if !ok {
		if !e.localAlloc[a] {
			e.addI("safe", "nil", i, R, fmt.Sprintf("(not (= %s 0))", a))
		}
		el := i.Addr.Type().Underlying().(*types.Pointer).Elem()
		l = e.cellLoc(a, el)
	}
	e.storeHook(b, i, l, v)
	if fa, ok := i.Addr.(*ssa.FieldAddr); ok {
		fname := fa.X.Type().Underlying().(*types.Pointer).Elem().Underlying().(*types.Struct).Field(fa.Field).Name()
		e.callOrd["#store:"+fname]++
		e.siteExtra = map[string]cval{"stored": {v, e.sortOf(i.Val.Type()), i.Val.Type()}, "target": {e.val(fa.X), "Ref", fa.X.Type()}}
		e.siteAsserts(i, fmt.Sprintf("store %s %d", fname, e.callOrd["#store:"+fname]), nil, nil, R)
		e.siteExtra = nil
	}
	switch l.kind {
	case "struct":
		e.storeStruct(l.ref, l.t, v, 0)
	case "array":
		e.note("array store (unmodelled)")
	default:
		e.store(l, v)
	}
	if fa, ok := i.Addr.(*ssa.FieldAddr); ok {
		pt := fa.X.Type().Underlying().(*types.Pointer).Elem()
		st := pt.Underlying().(*types.Struct)
		if e.nonnilField(pt, st.Field(fa.Field).Name()) {
			switch l.sort {
			case "Ref":
				e.addI("inv", "nonnil:"+st.Field(fa.Field).Name(), i, R, fmt.Sprintf("(not (= %s 0))", v))
			case "Iface":
				e.addI("inv", "nonnil:"+st.Field(fa.Field).Name(), i, R, fmt.Sprintf("(not (= %s INil))", v))
			}
		}
	}
}

func (e *enc) lookup(b *ssa.BasicBlock, i *ssa.Lookup) {
	R := e.reach[b]
	if mt, ok := i.X.Type().Underlying().(*types.Map); ok {
		ks, vs := e.sortOf(mt.Key()), e.sortOf(mt.Elem())
		k := e.val(i.Index)
		m := e.val(i.X)
		e.containerReadHook(b, i, i.X)
		if ks == "Iface" {
			e.addI("safe", "hash", i, R, fmt.Sprintf("(not (uncomparable %s))", k))
		}
		if !mapSupported(ks, vs) {
			e.havoc(i)
			return
		}
		hasA, valA := e.mapArrs(ks, vs)
		has := fmt.Sprintf("(and (not (= %s 0)) (select (select %s %s) %s))", m, e.hname(hasA), m, k)
		val := fmt.Sprintf("(select (select %s %s) %s)", e.hname(valA), m, k)
		if i.CommaOk {
			n := e.havoc(i)
			e.assume(fmt.Sprintf("(= %s.c1 %s)", n, has))
			e.assume(fmt.Sprintf("(= %s.c0 (ite %s %s %s))", n, has, val, e.zero(vs)))
			if _, ok := e.valsNonnilOf(i.X); ok {
				if t := nonnilTerm(vs, n+".c0"); t != "" && t != "true" {
					e.assume(fmt.Sprintf("(=> %s.c1 %s)", n, t))
				}
			}
			if vs == "Ref" {
				e.assume(e.allocated(n+".c0", e.heap))
			}
		} else {
			n := e.define(i, fmt.Sprintf("(ite %s %s %s)", has, val, e.zero(vs)))
			if vs == "Ref" {
				e.assume(e.allocated(n, e.heap))
			}
		}
		return
	}
	x := e.val(i.X)
	idx := e.val(i.Index)
	e.addI("safe", "index", i, R, fmt.Sprintf("(and %s %s)", e.ige0(idx), e.icmp(token.LSS, idx, e.slenI(x), false)))
	n := e.define(i, e.strAt(x, idx))
	// a byte - on the path that got past the bounds check: with the strings theory str.at outside
	// the string is "" with code -1, and an unconditional range fact would kill every other path
	if e.bv {
		e.assumeAt(R, fmt.Sprintf("(bvule %s #x00000000000000ff)", n))
	} else {
		e.assumeAt(R, fmt.Sprintf("(and (>= %s 0) (<= %s 255))", n, n))
	}
}

func (e *enc) mapUpdate(b *ssa.BasicBlock, i *ssa.MapUpdate) {
	R := e.reach[b]
	mt := i.Map.Type().Underlying().(*types.Map)
	ks, vs := e.sortOf(mt.Key()), e.sortOf(mt.Elem())
	k := e.val(i.Key)
	m := e.val(i.Map)
	v := e.val(i.Value)
	if !e.localAlloc[m] {
		e.addI("safe", "nilmap", i, R, fmt.Sprintf("(not (= %s 0))", m))
	}
	if ks == "Iface" {
		e.addI("safe", "hash", i, R, fmt.Sprintf("(not (uncomparable %s))", k))
	}
	e.mapWriteHook(b, i, m)
	if what, ok := e.valsNonnilOf(i.Map); ok {
		if t := nonnilTerm(vs, v); t != "" && t != "true" {
			e.addI("inv", "vals-nonnil:"+what, i, R, t)
		}
	}
	e.callOrd["#mapupdate"]++
	e.siteExtra = map[string]cval{"mapref": {m, "Ref", i.Map.Type()}, "mapkey": {k, ks, mt.Key()}, "mapval": {v, vs, mt.Elem()}}
	defer func() { e.siteExtra = nil }()
	e.siteAsserts(i, fmt.Sprintf("mapupdate %d", e.callOrd["#mapupdate"]), nil, nil, R)
	e.harr("MapLen", "(Array Ref "+e.isort()+")")
	if !mapSupported(ks, vs) {
		e.bump("MapLen")
		return
	}
	hasA, valA := e.mapArrs(ks, vs)
	oh, ov := e.hname(hasA), e.hname(valA)
	nh := e.bump(hasA)
	nvv := e.bump(valA)
	e.assume(fmt.Sprintf("(= %s (store %s %s (store (select %s %s) %s true)))", nh, oh, m, oh, m, k))
	e.assume(fmt.Sprintf("(= %s (store %s %s (store (select %s %s) %s %s)))", nvv, ov, m, ov, m, k, v))
	ol := e.hname("MapLen")
	nl := e.bump("MapLen")
	e.assume(fmt.Sprintf("(= %s (store %s %s (ite (select (select %s %s) %s) (select %s %s) %s)))", nl, ol, m, oh, m, k, ol, m, e.iadd("(select "+ol+" "+m+")", e.ilit(1))))
}

func (e *enc) sliceInstr(b *ssa.BasicBlock, i *ssa.Slice) {
	R := e.reach[b]
	x := e.val(i.X)
	lo := e.ilit(0)
	if i.Low != nil {
		lo = e.val(i.Low)
	}
	le := func(a, b string) string { return e.icmp(token.LEQ, a, b, false) }
	switch t := i.X.Type().Underlying().(type) {
	case *types.Basic:
		hi := e.slenI(x)
		if i.High != nil {
			hi = e.val(i.High)
		}
		e.addI("safe", "slice", i, R, fmt.Sprintf("(and %s %s %s)", le(e.ilit(0), lo), le(lo, hi), le(hi, e.slenI(x))))
		if e.strTheory {
			e.define(i, fmt.Sprintf("(str.substr %s %s %s)", x, e.toInt(lo), e.toInt(e.isub(hi, lo))))
		} else {
			n := e.define(i, fmt.Sprintf("(ssub %s %s %s)", x, e.toInt(lo), e.toInt(hi)))
			e.assumeAt(R, fmt.Sprintf("(= (slen %s) %s)", n, e.toInt(e.isub(hi, lo))))
			// the bytes of a substring are those of the string
			e.assumeAt(R, fmt.Sprintf("(forall ((k Int)) (! (=> (and (<= 0 k) (< k (slen %s))) (= (sat %s k) (sat %s (+ %s k)))) :pattern ((sat %s k))))", n, n, x, e.toInt(lo), n))
		}
	case *types.Slice:
		hi := "(len " + x + ")"
		if i.High != nil {
			hi = e.val(i.High)
		}
		mx := "(cap " + x + ")"
		if i.Max != nil {
			mx = e.val(i.Max)
		}
		e.addI("safe", "slice", i, R, fmt.Sprintf("(and %s %s %s %s)", le(e.ilit(0), lo), le(lo, hi), le(hi, mx), le(mx, "(cap "+x+")")))
		e.define(i, fmt.Sprintf("(mkSlice (arr %s) %s %s %s)", x, e.iadd("(off "+x+")", lo), e.isub(hi, lo), e.isub(mx, lo)))
	case *types.Pointer:
		at := t.Elem().Underlying().(*types.Array)
		hi := e.ilit(at.Len())
		if i.High != nil {
			hi = e.val(i.High)
		}
		if !e.localAlloc[x] {
			e.addI("safe", "nil", i, R, fmt.Sprintf("(not (= %s 0))", x))
		}
		e.addI("safe", "slice", i, R, fmt.Sprintf("(and %s %s %s)", le(e.ilit(0), lo), le(lo, hi), le(hi, e.ilit(at.Len()))))
		e.define(i, fmt.Sprintf("(mkSlice %s %s %s %s)", x, lo, e.isub(hi, lo), e.isub(e.ilit(at.Len()), lo)))
	}
}

func (e *enc) binop(b *ssa.BasicBlock, i *ssa.BinOp) {
	R := e.reach[b]
	x, y := e.val(i.X), e.val(i.Y)
	sx := e.sortOf(i.X.Type())
	uns := isUnsigned(i.X.Type())
	switch i.Op {
	case token.EQL, token.NEQ:
		var eq string
		switch sx {
		case "Iface":
			cx, okx := i.X.(*ssa.Const)
			cy, oky := i.Y.(*ssa.Const)
			if !(okx && cx.Value == nil) && !(oky && cy.Value == nil) {
				e.addI("safe", "ifacecmp", i, R, fmt.Sprintf("(not (and (= (tag %s) (tag %s)) (uncomparable %s)))", x, y, x))
				eq = fmt.Sprintf("(ifaceEq %s %s)", x, y)
			} else {
				eq = fmt.Sprintf("(= %s %s)", x, y)
			}
		case "SV", "TUPLE":
			e.havoc(i)
			return
		case "F64":
			eq = fmt.Sprintf("(fp.eq (toFP %s) (toFP %s))", x, y)
		default:
			eq = fmt.Sprintf("(= %s %s)", x, y)
		}
		if i.Op == token.EQL {
			e.define(i, eq)
		} else {
			e.define(i, "(not "+eq+")")
		}
	case token.LSS, token.LEQ, token.GTR, token.GEQ:
		switch sx {
		case "ISort":
			e.define(i, e.icmp(i.Op, x, y, uns))
		case "F64":
			op := map[token.Token]string{token.LSS: "fp.lt", token.LEQ: "fp.leq", token.GTR: "fp.gt", token.GEQ: "fp.geq"}[i.Op]
			e.define(i, fmt.Sprintf("(%s (toFP %s) (toFP %s))", op, x, y))
		case "Str":
			if e.strTheory {
				op := map[token.Token]string{token.LSS: "(str.< %s %s)", token.LEQ: "(str.<= %s %s)", token.GTR: "(str.< %[2]s %[1]s)", token.GEQ: "(str.<= %[2]s %[1]s)"}[i.Op]
				e.define(i, fmt.Sprintf(op, x, y))
			} else {
				op := map[token.Token]string{token.LSS: "(strlt %s %s)", token.LEQ: "(not (strlt %[2]s %[1]s))", token.GTR: "(strlt %[2]s %[1]s)", token.GEQ: "(not (strlt %s %s))"}[i.Op]
				e.define(i, fmt.Sprintf(op, x, y))
			}
		default:
			e.havoc(i)
		}
	default:
		switch sx {
		case "ISort":
			if i.Op == token.QUO || i.Op == token.REM {
				lbl := "div0"
				if i.Op == token.REM {
					lbl = "rem0"
				}
				e.addI("safe", lbl, i, R, fmt.Sprintf("(not (= %s %s))", y, e.ilit(0)))
			}
			if i.Op == token.SHL || i.Op == token.SHR {
				if !isUnsigned(i.Y.Type()) {
					if _, isC := i.Y.(*ssa.Const); !isC {
						e.addI("safe", "shift", i, R, e.ige0(y))
					}
				}
			}
			if t := e.iop(i.Op, x, y, uns); t != "" {
				n := e.define(i, t)
				if !e.bv && uns && i.Op == token.SUB {
					_ = n
					e.assumptions["unsigned subtraction treated as mathematical (no wrap-around) in math mode"] = true
				}
			} else {
				e.havoc(i)
			}
		case "F64":
			op := map[token.Token]string{token.ADD: "fp.add RNE", token.SUB: "fp.sub RNE", token.MUL: "fp.mul RNE", token.QUO: "fp.div RNE"}[i.Op]
			n := e.havoc(i)
			if op != "" {
				e.assume(fmt.Sprintf("(= (toFP %s) (%s (toFP %s) (toFP %s)))", n, op, x, y))
			}
		case "Str":
			if i.Op == token.ADD {
				if e.strTheory {
					e.define(i, fmt.Sprintf("(str.++ %s %s)", x, y))
				} else {
					n := e.define(i, fmt.Sprintf("(sconcat %s %s)", x, y))
					e.assume(fmt.Sprintf("(= (slen %s) (+ (slen %s) (slen %s)))", n, x, y))
				}
			} else {
				e.havoc(i)
			}
		default:
			e.havoc(i)
		}
	}
}

func (e *enc) convert(b *ssa.BasicBlock, i *ssa.Convert) {
	sx, sr := e.sortOf(i.X.Type()), e.sortOf(i.Type())
	x := e.val(i.X)
	bx, _ := i.X.Type().Underlying().(*types.Basic)
	br, _ := i.Type().Underlying().(*types.Basic)
	switch {
	case sx == "ISort" && sr == "ISort" && bx != nil && br != nil:
		szx, szr := intSize(bx), intSize(br)
		if e.bv {
			if szr >= 64 && szx >= 64 {
				e.define(i, x)
				return
			}
			if szr >= szx && isUnsigned(bx) == isUnsigned(br) {
				e.define(i, x)
				return
			}
			if szr < 64 {
				// truncate then extend
				ext := "sign_extend"
				if isUnsigned(br) {
					ext = "zero_extend"
				}
				e.define(i, fmt.Sprintf("((_ %s %d) ((_ extract %d 0) %s))", ext, 64-szr, szr-1, x))
				return
			}
			e.define(i, x)
			return
		}
		// math mode: widening or same-size same-signedness conversions are the identity
		if (szr >= szx && isUnsigned(bx) == isUnsigned(br)) || (szr > szx && isUnsigned(bx)) {
			e.define(i, x)
			return
		}
		if szr == szx || szr > szx {
			// signedness change: identity when the value is non-negative
			n := e.havoc(i)
			e.assume(fmt.Sprintf("(=> (>= %s 0) (= %s %s))", x, n, x))
			e.assumptions["int<->uint conversions of negative values unconstrained in math mode"] = true
			return
		}
		// narrowing
		n := e.havoc(i)
		lim := int64(1) << uint(szr-1)
		if isUnsigned(br) {
			e.assume(fmt.Sprintf("(=> (and (>= %s 0) (< %s %d)) (= %s %s))", x, x, lim*2, n, x))
		} else {
			e.assume(fmt.Sprintf("(=> (and (>= %s (- %d)) (< %s %d)) (= %s %s))", x, lim, x, lim, n, x))
		}
	case sx == "Str" && sr == "Str":
		e.define(i, x)
	case sx == "F64" && sr == "F64":
		if bx != nil && br != nil && (bx.Kind() == br.Kind() || bx.Kind() == types.Float32 || bx.Kind() == types.UntypedFloat) {
			// same kind, or widening float32 -> float64 (float32 values are kept as the float64 of the same value)
			e.define(i, x)
		} else if br != nil && br.Kind() == types.Float32 {
			// narrowing: round to nearest even
			n := e.havoc(i)
			e.assume(fmt.Sprintf("(= (toFP %s) ((_ to_fp 11 53) RNE ((_ to_fp 8 24) RNE (toFP %s))))", n, x))
		} else {
			e.havoc(i)
		}
	case sx == "ISort" && sr == "F64" && br != nil && br.Kind() == types.Float32:
		n := e.havoc(i)
		if e.bv {
			conv := "to_fp"
			if isUnsigned(i.X.Type()) {
				conv = "to_fp_unsigned"
			}
			e.assume(fmt.Sprintf("(= (toFP %s) ((_ to_fp 11 53) RNE ((_ %s 8 24) RNE %s)))", n, conv, x))
		}
	case sx == "ISort" && sr == "F64":
		n := e.havoc(i)
		if e.bv {
			if isUnsigned(i.X.Type()) {
				e.assume(fmt.Sprintf("(= (toFP %s) ((_ to_fp_unsigned 11 53) RNE %s))", n, x))
			} else {
				e.assume(fmt.Sprintf("(= (toFP %s) ((_ to_fp 11 53) RNE %s))", n, x))
			}
		} else {
			e.assume(fmt.Sprintf("(= (toFP %s) ((_ to_fp 11 53) RNE (to_real %s)))", n, x))
		}
	case sx == "F64" && sr == "ISort":
		n := e.havoc(i)
		// a conversion is a function of its operand (the same value converts to the same result)
		if br != nil {
			fn := fmt.Sprintf("f2i_%s", sname(br.Name()))
			if !e.declared[fn] {
				e.declared[fn] = true
				e.decls = append(e.decls, fmt.Sprintf("(declare-fun %s (%s) %s)", fn, e.smtSort("F64"), e.isort()))
			}
			e.assume(fmt.Sprintf("(= %s (%s %s))", n, fn, x))
		}
		if e.bv && br != nil {
			// defined when the truncated value is representable in the target type; otherwise
			// implementation-defined (left free)
			k := intSize(br)
			pow := func(b int) string {
				return fmt.Sprintf("((_ to_fp 11 53) RNE %s.0)", new(big.Int).Lsh(big.NewInt(1), uint(b)).String())
			}
			switch {
			case !isUnsigned(br) && k == 64:
				e.assume(fmt.Sprintf("(=> (and (fp.leq (fp.neg %s) (toFP %s)) (fp.lt (toFP %s) %s)) (= %s ((_ fp.to_sbv 64) RTZ (toFP %s))))", pow(63), x, x, pow(63), n, x))
			case !isUnsigned(br):
				lo := fmt.Sprintf("(fp.neg ((_ to_fp 11 53) RNE %s.0))", new(big.Int).Add(new(big.Int).Lsh(big.NewInt(1), uint(k-1)), big.NewInt(1)).String())
				e.assume(fmt.Sprintf("(=> (and (fp.lt %s (toFP %s)) (fp.lt (toFP %s) %s)) (= %s ((_ fp.to_sbv 64) RTZ (toFP %s))))", lo, x, x, pow(k-1), n, x))
			default:
				e.assume(fmt.Sprintf("(=> (and (fp.lt (fp.neg ((_ to_fp 11 53) RNE 1.0)) (toFP %s)) (fp.lt (toFP %s) %s)) (= %s ((_ fp.to_ubv 64) RTZ (toFP %s))))", x, x, pow(k), n, x))
			}
		}
	case sr == "Slice" && sx == "Str":
		// []byte(s)
		n := e.havoc(i)
		ar := e.newName("newarr")
		e.decl(ar, "Ref")
		e.allocFresh(ar)
		e.assume(fmt.Sprintf("(and (= (len %s) %s) (= (off %s) %s) (= (arr %s) %s))", n, e.slenI(x), n, e.ilit(0), n, ar))
	case sr == "Str" && sx == "Slice":
		n := e.havoc(i)
		if !e.strTheory {
			e.assume(fmt.Sprintf("(= (slen %s) %s)", n, e.toInt("(len "+x+")")))
			if sl, ok := i.X.Type().Underlying().(*types.Slice); ok && e.fc != nil && e.fc.Opts["bytes"] == "precise" && !e.bv {
				if eb, ok := sl.Elem().Underlying().(*types.Basic); ok && eb.Kind() == types.Uint8 {
					// opt bytes precise: the bytes of the string are the elements of the slice at the conversion
					l := loc{kind: "elem", arr: "Elems_" + sname(types.TypeString(sl.Elem(), qualName)), ref: "(arr " + x + ")", idx: "(+ (off " + x + ") k)", sort: e.sortOf(sl.Elem()), t: sl.Elem()}
					e.assume(fmt.Sprintf("(forall ((k Int)) (! (=> (and (<= 0 k) (< k (slen %s))) (= (sat %s k) %s)) :pattern ((sat %s k))))", n, n, e.load(l), n))
				}
			}
		} else {
			e.assume(fmt.Sprintf("(= (str.len %s) %s)", n, e.toInt("(len "+x+")")))
		}
	case sr == "Str" && sx == "ISort":
		// string(rune)
		n := e.havoc(i)
		e.assume(fmt.Sprintf("(and (>= %s 1) (<= %s 4))", e.slen(n), e.slen(n)))
	default:
		e.havoc(i)
	}
}

func intSize(b *types.Basic) int {
	switch b.Kind() {
	case types.Int8, types.Uint8:
		return 8
	case types.Int16, types.Uint16:
		return 16
	case types.Int32, types.Uint32:
		return 32
	}
	return 64
}

// closureSync: the closure value is only called or deferred by the function that creates it
// (never stored, passed on or started as a goroutine).
func closureSync(mc *ssa.MakeClosure) bool {
	return closureSyncRec(mc, map[*ssa.MakeClosure]bool{})
}

func closureSyncRec(mc *ssa.MakeClosure, seen map[*ssa.MakeClosure]bool) bool {
	if seen[mc] {
		return true
	}
	seen[mc] = true
	for _, r := range *mc.Referrers() {
		switch u := r.(type) {
		case *ssa.DebugRef:
		case *ssa.Defer:
			if u.Call.Value != ssa.Value(mc) {
				return false
			}
		case *ssa.Call:
			if u.Call.Value != ssa.Value(mc) {
				return false
			}
		case *ssa.Store:
			// stored into a local variable that is itself only called: one level
			al, ok := u.Addr.(*ssa.Alloc)
			if !ok || u.Val != ssa.Value(mc) {
				return false
			}
			for _, rr := range *al.Referrers() {
				switch x := rr.(type) {
				case *ssa.Store, *ssa.DebugRef:
				case *ssa.UnOp:
					for _, use := range *x.Referrers() {
						switch c := use.(type) {
						case *ssa.Call:
							if c.Call.Value != ssa.Value(x) {
								return false
							}
						case *ssa.Defer:
							if c.Call.Value != ssa.Value(x) {
								return false
							}
						case *ssa.DebugRef:
						default:
							return false
						}
					}
				case *ssa.MakeClosure:
					// captured by another closure (recursive local functions)
					if !closureSyncRec(x, seen) {
						return false
					}
				default:
					return false
				}
			}
		default:
			return false
		}
	}
	return true
}

// allocPrivate: a captured local whose closures all stay inside the creating activation is as
// private as a stack variable: neither other threads nor unrelated callees can reach it.
func allocPrivate(a *ssa.Alloc) bool {
	for _, r := range *a.Referrers() {
		switch u := r.(type) {
		case *ssa.Store:
			if u.Addr != ssa.Value(a) {
				return false
			}
		case *ssa.UnOp, *ssa.DebugRef, *ssa.FieldAddr, *ssa.IndexAddr:
		case *ssa.MakeClosure:
			if !closureSync(u) {
				return false
			}
		default:
			return false
		}
	}
	return true
}

// closureFnSync: every creation site of the closure function keeps it inside the creating activation.
func closureFnSync(fn *ssa.Function) bool {
	p := fn.Parent()
	if p == nil {
		return false
	}
	found := false
	for _, b := range p.Blocks {
		for _, ins := range b.Instrs {
			if mc, ok := ins.(*ssa.MakeClosure); ok && mc.Fn == ssa.Value(fn) {
				found = true
				if !closureSync(mc) {
					return false
				}
			}
		}
	}
	return found
}

// allocWrittenOnce: a captured variable that is assigned exactly once by its function (its
// initialisation) and by none of the closures capturing it keeps its value wherever the closures go.
func allocWrittenOnce(a *ssa.Alloc) bool {
	stores := 0
	for _, r := range *a.Referrers() {
		switch u := r.(type) {
		case *ssa.Store:
			if u.Addr != ssa.Value(a) {
				return false // address stored somewhere
			}
			stores++
		case *ssa.UnOp, *ssa.DebugRef:
		case *ssa.MakeClosure:
			fn := u.Fn.(*ssa.Function)
			for i, bd := range u.Bindings {
				if bd == ssa.Value(a) && freeVarWritten(fn, i, 0) {
					return false
				}
			}
		default:
			return false
		}
	}
	return stores <= 1
}

func freeVarWritten(fn *ssa.Function, idx int, depth int) bool {
	if idx >= len(fn.FreeVars) || depth > 4 {
		return true
	}
	fv := fn.FreeVars[idx]
	for _, r := range *fv.Referrers() {
		switch u := r.(type) {
		case *ssa.Store:
			return true
		case *ssa.UnOp, *ssa.DebugRef:
		case *ssa.MakeClosure:
			inner := u.Fn.(*ssa.Function)
			for i, bd := range u.Bindings {
				if bd == ssa.Value(fv) && freeVarWritten(inner, i, depth+1) {
					return true
				}
			}
		default:
			_ = u
			return true
		}
	}
	return false
}

// mapPrivate: the map is only updated, read, measured, ranged over or returned by its function.
func mapPrivate(m *ssa.MakeMap) bool {
	for _, r := range *m.Referrers() {
		switch u := r.(type) {
		case *ssa.MapUpdate:
			if u.Map != ssa.Value(m) {
				return false
			}
		case *ssa.Lookup:
			if u.X != ssa.Value(m) {
				return false
			}
		case *ssa.Range, *ssa.DebugRef, *ssa.Return:
		case *ssa.Call:
			b, ok := u.Call.Value.(*ssa.Builtin)
			if !ok || (b.Name() != "len" && b.Name() != "delete") {
				return false
			}
		default:
			return false
		}
	}
	return true
}
