package main

import (
	"fmt"
	"regexp"
	"strings"
	"time"
)

func c09Extra(c *Checker) { condExtra(c, "pool") }

func init() {
	registerProp(&PropSpec{ID: "C09", Title: "The thread pool runs every accepted task exactly once without outside help", MinObls: 40, Extra: c09Extra, Replay: c09Replay,
		Classes:     regexp.MustCompile(`^(lock|cond|assert|pre|post|frame|inv|own)`),
		TrustedBase: []string{"native model of sync.Mutex and sync.Cond (Wait releases and re-acquires L: everything shared is havocked)", "structural wait/signal discipline (gvc/cond.go)"},
		Assumptions: []string{"soundness of the wait/signal discipline (DESIGN §7.4): if every Wait is preceded, in the same critical section of L, by a test of the predicate, and every write that can make the predicate true is followed by a Signal/Broadcast issued while holding L, no wake-up is lost under any schedule",
			"sync.Cond.Signal wakes a waiter if there is one"},
		NotDecided: []string{"convergence of the polling loops in WaitAll / JoinAll / SetWorkerCount(wait) (liveness under a fair scheduler)", "that the sampled exit condition of WaitAll still holds when the caller acts on it"}})
}

const c09ReplaySrc = `package pool

import (
	"fmt"
	"testing"
	"time"
)

type verifTask struct{ f func() }

func (t *verifTask) Run(tid uint64) error { t.f(); return nil }
func (t *verifTask) HandleError(e error)  {}

func TestVerifReplay(t *testing.T) {
	tp := NewThreadPool()
	tp.SetWorkerCount(1, true)
	stalls := 0
	first := ""
	start := time.Now()
	n := 0
	for ; n < 400000 && time.Since(start) < 20*time.Second && stalls == 0; n++ {
		done := make(chan bool, 1)
		tp.AddTask(&verifTask{func() { done <- true }})
		select {
		case <-done:
		case <-time.After(300 * time.Millisecond):
			stalls++
			first = fmt.Sprintf("submission %d: task still queued after 300ms, pool state %v", n, tp.State())
			// a second submission wakes the worker up again
			tp.AddTask(&verifTask{func() {}})
			<-done
		}
	}
	fmt.Printf("REPLAY-STALLS %d after %d submissions %s\nREPLAY-DONE\n", stalls, n, first)
}
`

var c09ReplayCache map[string]interface{}

// c09Replay: one worker; tasks are submitted one at a time and nothing else touches the pool. A task
// that is not started within 300 ms although the worker is idle is a lost wake-up.
func c09Replay(c *Checker, o *Obl) map[string]interface{} {
	if !strings.HasPrefix(o.Class, "cond") {
		return nil
	}
	if c09ReplayCache == nil {
		rp := map[string]interface{}{"confirmed": false, "replay": "sched: single submissions to a pool with one worker, waiting for each task without any further call on the pool (up to 400000 submissions / 20 s)"}
		run := runOverlayTestFlags(c.W.Repo, "engine/pool", c09ReplaySrc, c.Dir, 120*time.Second, "")
		rp["replay_output"] = truncate(run.Out, 2000)
		var stalls, n int
		if i := strings.Index(run.Out, "REPLAY-STALLS"); i >= 0 {
			fmt.Sscanf(run.Out[i:], "REPLAY-STALLS %d after %d", &stalls, &n)
			line := run.Out[i:]
			if j := strings.Index(line, "\n"); j >= 0 {
				line = line[:j]
			}
			rp["outcome"] = line
		}
		switch {
		case stalls > 0:
			rp["confirmed"] = true
		case run.TimedOut:
			rp["outcome"] = "hang"
			rp["confirmed"] = true
		case !strings.Contains(run.Out, "REPLAY-DONE"):
			rp["outcome"] = "replay did not run to completion"
		}
		c09ReplayCache = rp
	}
	rp := map[string]interface{}{}
	for k, v := range c09ReplayCache {
		rp[k] = v
	}
	if !strings.Contains(o.ID, "AddTask") && !strings.Contains(o.ID, "idleTask") && rp["confirmed"] == true {
		rp["confirmed"] = false
		rp["outcome"] = fmt.Sprintf("%v (this schedule exercises the AddTask / idle-task pair of the same discipline; no separate schedule was forced for this site)", rp["outcome"])
	}
	return rp
}
