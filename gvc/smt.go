package main

import (
	"bytes"
	"context"
	"fmt"
	"os"
	"os/exec"
	"path/filepath"
	"regexp"
	"sort"
	"strings"
	"sync"
	"time"
)

func (e *enc) prelude() string {
	var b strings.Builder
	b.WriteString("(set-option :produce-models true)\n(set-logic ALL)\n")
	b.WriteString("(define-sort Ref () Int)\n(define-sort F64 () (_ BitVec 64))\n")
	is := e.isort()
	b.WriteString(fmt.Sprintf("(define-sort ISort () %s)\n", is))
	if e.strTheory {
		b.WriteString("(define-sort Str () String)\n")
	} else {
		b.WriteString(`(declare-sort Str 0)
(declare-fun slen (Str) Int)
(declare-fun sat (Str Int) Int)
(declare-fun ssub (Str Int Int) Str)
(declare-fun sconcat (Str Str) Str)
(declare-fun strlt (Str Str) Bool)
(declare-fun sindexof (Str Str) Int)
(declare-fun sindexfrom (Str Str Int) Int)
(declare-fun sprefixof (Str Str) Bool)
(declare-fun ssuffixof (Str Str) Bool)
(declare-const emptyStr Str)
(assert (= (slen emptyStr) 0))
(assert (forall ((s Str)) (! (>= (slen s) 0) :pattern ((slen s)))))
`)
	}
	b.WriteString("(declare-sort SV 0)\n")
	b.WriteString("(declare-datatypes ((Slice 0)) (((mkSlice (arr Ref) (off ISort) (len ISort) (cap ISort)))))\n")
	b.WriteString("(declare-datatypes ((Iface 0)) (((INil) (IF64 (f64 F64)) (IStr (istr Str)) (IBool (ibool Bool)) (IInt (itid Int) (iint ISort)) (INamedStr (nstid Int) (nstr Str)) (IFlt (ftid Int) (fltv F64)) (ISlice (stid Int) (isl Slice)) (IMap (mtid Int) (imap Ref)) (IPtr (ptid Int) (iptr Ref)) (IBox (btid Int) (bval SV)))))\n")
	b.WriteString(`(define-fun toFP ((b F64)) (_ FloatingPoint 11 53) ((_ to_fp 11 53) b))
(define-fun tag ((v Iface)) Int (ite (is-INil v) 0 (ite (is-IF64 v) 1 (ite (is-IStr v) 2 (ite (is-IBool v) 3 (ite (is-IInt v) (+ 10 (* 16 (itid v))) (ite (is-INamedStr v) (+ 11 (* 16 (nstid v))) (ite (is-IFlt v) (+ 12 (* 16 (ftid v))) (ite (is-ISlice v) (+ 13 (* 16 (stid v))) (ite (is-IMap v) (+ 14 (* 16 (mtid v))) (ite (is-IPtr v) (+ 15 (* 16 (ptid v))) (+ 16 (* 16 (btid v))))))))))))))
(declare-fun boxUncomparable (Int) Bool)
(declare-fun funcTid (Int) Bool)
(define-fun uncomparable ((v Iface)) Bool (or (is-ISlice v) (is-IMap v) (and (is-IBox v) (boxUncomparable (btid v))) (and (is-IPtr v) (funcTid (ptid v)))))
(define-fun ifaceEq ((a Iface) (b Iface)) Bool (ite (and (is-IF64 a) (is-IF64 b)) (fp.eq (toFP (f64 a)) (toFP (f64 b))) (ite (and (is-IFlt a) (is-IFlt b) (= (ftid a) (ftid b))) (fp.eq (toFP (fltv a)) (toFP (fltv b))) (= a b))))
(declare-fun birth (Ref) Int)
(declare-fun subobj (Ref Int) Ref)
(declare-fun elemobj (Ref Int) Ref)
(declare-fun sprint (Iface) Str)
`)
	if !e.bv {
		b.WriteString(`(define-fun tdiv ((x Int) (y Int)) Int (ite (>= x 0) (ite (> y 0) (div x y) (- (div x (- y)))) (ite (> y 0) (- (div (- x) y)) (div (- x) (- y)))))
(define-fun trem ((x Int) (y Int)) Int (- x (* y (tdiv x y))))
(declare-fun bitand (Int Int) Int)
(declare-fun bitor (Int Int) Int)
(declare-fun bitxor (Int Int) Int)
(declare-fun bitandnot (Int Int) Int)
(declare-fun bitshl (Int Int) Int)
(declare-fun bitshr (Int Int) Int)
`)
	}
	return b.String()
}

// smtDecls returns prelude and declarations of the function.
func (e *enc) smtDecls() string {
	var b strings.Builder
	b.WriteString(e.prelude())
	for _, d := range e.decls {
		b.WriteString(d + "\n")
	}
	return b.String()
}

// smtAsserts returns assumptions [from, to).
func (e *enc) smtAsserts(from, to int) string {
	var b strings.Builder
	for i, a := range e.asserts[from:to] {
		if e.dropAssert[from+i] {
			continue
		}
		b.WriteString("(assert " + a + ")\n")
	}
	return b.String()
}

var storeDefRe = regexp.MustCompile(`^\(= \|([^|@]+)@\d+\| \(store \|([^|@]+)@\d+\| `)
var arrNameRe = regexp.MustCompile(`\|([^|@]+)@\d+\|`)

// sliceStores: in functions with very many heap writes (table initialisers) the single-store
// definitions of array families no obligation can depend on are left out of the query (dropping an
// assumption never makes a proof unsound). A family is needed if a goal or path mentions it, or if a
// kept assertion that is not itself a store definition mentions it, or a kept store definition does.
func (e *enc) sliceStores(obls []*Obl) {
	e.dropAssert = nil
	nStores := 0
	for _, a := range e.asserts {
		if storeDefRe.MatchString(a) {
			nStores++
		}
	}
	if nStores < 200 {
		return
	}
	need := map[string]bool{}
	addFrom := func(t string) bool {
		ch := false
		for _, m := range arrNameRe.FindAllStringSubmatch(t, -1) {
			if !need[m[1]] {
				need[m[1]] = true
				ch = true
			}
		}
		return ch
	}
	for _, o := range obls {
		addFrom(o.Goal)
		addFrom(o.Path)
	}
	isStore := make([]string, len(e.asserts))
	fams := make([][]string, len(e.asserts))
	for i, a := range e.asserts {
		if m := storeDefRe.FindStringSubmatch(a); m != nil && m[1] == m[2] {
			isStore[i] = m[1]
		}
		seen := map[string]bool{}
		for _, m := range arrNameRe.FindAllStringSubmatch(a, -1) {
			if !seen[m[1]] {
				seen[m[1]] = true
				fams[i] = append(fams[i], m[1])
			}
		}
	}
	// cone of influence over array families: an assertion that touches a needed family makes the
	// other families it mentions needed as well
	for changed := true; changed; {
		changed = false
		for i := range e.asserts {
			touches := false
			for _, f := range fams[i] {
				if need[f] {
					touches = true
				}
			}
			if isStore[i] != "" {
				touches = need[isStore[i]]
			}
			if !touches {
				continue
			}
			for _, f := range fams[i] {
				if !need[f] {
					need[f] = true
					changed = true
				}
			}
		}
	}
	e.dropAssert = map[int]bool{}
	for i := range e.asserts {
		if isStore[i] != "" && !need[isStore[i]] {
			e.dropAssert[i] = true
		}
	}
}

type SolverCfg struct {
	Name string
	Cmd  []string // file appended
}

func solverCfgs(timeoutMs int, strs bool) []SolverCfg {
	cv := []string{"cvc5", "--incremental", fmt.Sprintf("--tlimit-per=%d", timeoutMs)}
	if strs {
		cv = append(cv, "--strings-exp")
	}
	return []SolverCfg{
		{"z3-new", []string{"z3-new", fmt.Sprintf("-t:%d", timeoutMs)}},
		{"z3", []string{"z3", fmt.Sprintf("-t:%d", timeoutMs)}},
		{"cvc5", cv},
	}
}

func runSolver(cfg SolverCfg, file string, wall time.Duration) (string, time.Duration) {
	return runSolverCtx(context.Background(), cfg, file, wall)
}

func runSolverCtx(parent context.Context, cfg SolverCfg, file string, wall time.Duration) (string, time.Duration) {
	ctx, cancel := context.WithTimeout(parent, wall)
	defer cancel()
	t0 := time.Now()
	args := append(append([]string{}, cfg.Cmd[1:]...), file)
	cmd := exec.CommandContext(ctx, cfg.Cmd[0], args...)
	var out bytes.Buffer
	cmd.Stdout = &out
	cmd.Stderr = &out
	cmd.Run()
	return out.String(), time.Since(t0)
}

// parseResults reads one answer per check-sat from solver output.
func parseResults(out string, n int) ([]string, []string) {
	var res []string
	var errs []string
	for _, l := range strings.Split(out, "\n") {
		l = strings.TrimSpace(l)
		switch {
		case l == "unsat" || l == "sat" || l == "unknown" || l == "timeout":
			res = append(res, l)
		case strings.HasPrefix(l, "(error"):
			errs = append(errs, l)
		}
	}
	for len(res) < n {
		res = append(res, "error")
	}
	return res, errs
}

// discharge runs all obligations of an encoded function. Fast path: one incremental z3-new session;
// everything not unsat is retried alone with the whole portfolio.
func discharge(e *enc, dir string, idx int, timeoutMs int, obls []*Obl) {
	e.sliceStores(obls)
	if len(obls) == 0 {
		return
	}
	// vacuity probes: only an unsat answer matters, so they get a short time-out and no retry
	var probes, rest []*Obl
	for _, o := range obls {
		if o.Class == "reach" {
			probes = append(probes, o)
		} else {
			rest = append(rest, o)
		}
	}
	if len(probes) > 0 && len(rest) > 0 {
		dischargeSet(e, dir, idx*2+1, 1000, probes, false)
		dischargeSet(e, dir, idx*2, timeoutMs, rest, true)
		return
	}
	dischargeSet(e, dir, idx*2, timeoutMs, obls, len(probes) == 0)
}

func dischargeSet(e *enc, dir string, idx int, timeoutMs int, obls []*Obl, retryOthers bool) {
	decls := e.smtDecls()
	var pending []*Obl
	for _, o := range obls {
		if o.Struct {
			if o.Goal == "true" {
				o.Result = "unsat"
			} else {
				o.Result = "sat"
			}
			o.Solver = "structural"
			continue
		}
		pending = append(pending, o)
	}
	if len(pending) == 0 {
		return
	}
	sort.SliceStable(pending, func(i, j int) bool { return pending[i].At < pending[j].At })
	var b strings.Builder
	b.WriteString(decls)
	at := 0
	for _, o := range pending {
		if o.At > at {
			b.WriteString(e.smtAsserts(at, o.At))
			at = o.At
		}
		b.WriteString(fmt.Sprintf("(push 1)\n(assert %s)\n(assert (not %s))\n(check-sat)\n(pop 1)\n", o.Path, o.Goal))
	}
	fn := filepath.Join(dir, fmt.Sprintf("f%04d.smt2", idx))
	os.WriteFile(fn, []byte(b.String()), 0644)
	cfgs := solverCfgs(timeoutMs, e.strTheory)
	firstMs := timeoutMs
	if firstMs > 2500 && retryOthers {
		firstMs = 2500 // the fast path; whatever it leaves open is raced over all solvers with the full time-out
	}
	out, dur := runSolver(solverCfgs(firstMs, e.strTheory)[0], fn, time.Duration(firstMs*len(pending)+5000)*time.Millisecond)
	res, errs := parseResults(out, len(pending))
	if len(errs) > 0 {
		for _, o := range pending {
			o.Raw = errs[0]
		}
	}
	per := dur.Milliseconds() / int64(len(pending))
	var retry []*Obl
	for i, o := range pending {
		o.Result, o.Solver, o.Ms = res[i], cfgs[0].Name, per
		if res[i] != "unsat" && res[i] != "sat" && retryOthers && !knownObl[o.ID] {
			retry = append(retry, o) // (a recorded finding is not expected to discharge: no second round for it)
		}
	}
	var rwg sync.WaitGroup
	rsem := make(chan bool, 4)
	for k, o := range retry {
		k, o := k, o
		rwg.Add(1)
		rsem <- true
		go func() {
			defer func() { <-rsem; rwg.Done() }()
			retryOne(e, o, dir, idx, k, timeoutMs, cfgs)
		}()
	}
	rwg.Wait()
	if !keepSMT {
		os.Remove(fn)
	}
}

func retryOne(e *enc, o *Obl, dir string, idx, k, timeoutMs int, cfgs []SolverCfg) {
	retryOnce(e, o, dir, idx, k, timeoutMs, cfgs)
	if o.Result != "unsat" && o.Result != "sat" && o.Result != "error" {
		// undecided: the machine may be busy; one more round with four times the time before this counts
		// as a failed obligation
		retryOnce(e, o, dir, idx, k, timeoutMs*4, solverCfgs(timeoutMs*4, e.strTheory))
	}
}

func retryOnce(e *enc, o *Obl, dir string, idx, k, timeoutMs int, cfgs []SolverCfg) {
	{
		single := filepath.Join(dir, fmt.Sprintf("f%04d_o%d.smt2", idx, k))
		os.WriteFile(single, []byte(e.singleQuery(o, false)), 0644)
		type ans struct {
			r, raw, name string
			ms           int64
		}
		ch := make(chan ans, len(cfgs))
		ctx, cancel := context.WithCancel(context.Background())
		for _, cfg := range cfgs {
			go func(cfg SolverCfg) {
				out, dur := runSolverCtx(ctx, cfg, single, time.Duration(timeoutMs+3000)*time.Millisecond)
				r, errs := parseResults(out, 1)
				raw := ""
				if len(errs) > 0 && r[0] == "error" {
					raw = cfg.Name + ": " + errs[0]
				}
				ch <- ans{r[0], raw, cfg.Name, dur.Milliseconds()}
			}(cfg)
		}
		for range cfgs {
			a := <-ch
			if a.r == "unsat" || a.r == "sat" {
				o.Result, o.Solver, o.Ms = a.r, a.name, a.ms
				break
			}
			if a.raw != "" && o.Raw == "" {
				o.Raw = a.raw
			}
			if o.Result == "error" && a.r != "error" {
				o.Result, o.Solver, o.Ms = a.r, a.name, a.ms
			}
		}
		cancel()
		if !keepSMT {
			os.Remove(single)
		}
	}
}

func (e *enc) singleQuery(o *Obl, model bool) string {
	s := e.smtDecls() + e.smtAsserts(0, o.At) + fmt.Sprintf("(assert %s)\n(assert (not %s))\n(check-sat)\n", o.Path, o.Goal)
	if model {
		s += "(get-model)\n"
	}
	return s
}

// fetchModel re-runs a failed obligation alone and returns the solver output (model or reason).
func fetchModel(e *enc, o *Obl, dir string, timeoutMs int) string {
	single := filepath.Join(dir, "model_"+sname(o.ID)+".smt2")
	os.WriteFile(single, []byte(e.singleQuery(o, true)), 0644)
	defer os.Remove(single)
	var all strings.Builder
	cfgs := solverCfgs(timeoutMs, e.strTheory)
	if o.Result == "sat" {
		// ask the solver that refuted it first
		for i, cfg := range cfgs {
			if cfg.Name == o.Solver {
				cfgs[0], cfgs[i] = cfgs[i], cfgs[0]
			}
		}
	} else {
		// nobody decided it within the time-out: there is no model to fetch; report the reason once
		all.WriteString(fmt.Sprintf("; undecided within %d ms by z3-new, z3 and cvc5 (%s)\n", timeoutMs, o.Result))
		cfgs = solverCfgs(2000, e.strTheory)[:1]
	}
	for _, cfg := range cfgs {
		out, _ := runSolver(cfg, single, time.Duration(timeoutMs+3000)*time.Millisecond)
		r, _ := parseResults(out, 1)
		all.WriteString(fmt.Sprintf("; %s: %s\n", cfg.Name, r[0]))
		if r[0] == "sat" {
			if i := strings.Index(out, "sat"); i >= 0 {
				return all.String() + out[i+3:]
			}
		}
		if r[0] != "unsat" {
			all.WriteString(truncate(out, 400) + "\n")
		}
	}
	return all.String()
}

var keepSMT = false

// knownObl: obligations listed in known_findings.json for the property being checked
var knownObl = map[string]bool{}
