#!/usr/bin/env python3
"""Self-test corpus: every mutant patch must make its property's check fail (exit 1 with a
VIOLATION line), every benign patch must keep it green. Patches are applied to /repo's working
tree and reverted straight afterwards; /repo must be clean when this starts.
usage: selftest/run.py [name-substring ...]"""
import subprocess, sys, os, glob, re, json, time
VERIF = os.path.dirname(os.path.dirname(os.path.abspath(__file__)))
REPO = "/repo"
def sh(cmd, **kw):
    return subprocess.run(cmd, shell=True, capture_output=True, text=True, **kw)
def main():
    if sh("git -C %s status --porcelain --untracked-files=no" % REPO).stdout.strip():
        print("repo not clean"); sys.exit(2)
    sel = sys.argv[1:]
    files = sorted(glob.glob(VERIF + "/selftest/mutants/*.patch")) + sorted(glob.glob(VERIF + "/selftest/benign/*.patch")) + sorted(glob.glob(VERIF + "/seeded/*/patch.diff"))
    bad = 0
    for f in files:
        if sel and not any(s in f for s in sel):
            continue
        head = open(f).read().split("\n")[:12]
        props = []
        for l in head:
            m = re.match(r"#\s*property:\s*(.*)", l)
            if m: props = m.group(1).split()
        if "/seeded/" in f:
            meta = json.load(open(os.path.join(os.path.dirname(f), "meta.json")))
            props = [meta["property"]] if isinstance(meta["property"], str) else meta["property"]
        expect_fail = "/benign/" not in f
        r = sh("git -C %s apply --whitespace=nowarn %s" % (REPO, f))
        if r.returncode != 0:
            print("CANNOT-APPLY", f, r.stderr.strip()[:200]); bad += 1; continue
        try:
            for p in props:
                t0 = time.time()
                r = sh("cd %s && ./check %s quick" % (VERIF, p))
                viol = "VIOLATION property=" + p in r.stdout
                ok = (r.returncode == 1 and viol) if expect_fail else (r.returncode == 0 and not viol)
                names = re.findall(r"FAILED-OBLIGATION (\S+)", r.stdout)
                print("%s %-60s %s exit=%d %.0fs %s" % ("ok  " if ok else "BAD ", os.path.relpath(f, VERIF), p, r.returncode, time.time() - t0, " ".join(names[:3])))
                if not ok:
                    bad += 1
                    print(r.stdout[-1500:])
        finally:
            sh("git -C %s checkout -- . && git -C %s clean -fdq -- . ':!examples'" % (REPO, REPO))
    sh("rm -rf %s/replays" % VERIF)
    print("selftest: %d problems" % bad)
    sys.exit(1 if bad else 0)
main()
