package main

import (
	"strings"
	"time"
)

const c10ReplaySrc = `package engine

import (
	"fmt"
	"testing"

	"github.com/krotik/ecal/engine/pubsub"
)

func TestVerifReplay(t *testing.T) {
	ev := NewEvent("e", []string{"a"}, nil)
	rm := newRootMonitor(nil, NewRuleScope(map[string]bool{"": true}), pubsub.NewEventPump())
	rm.Activate(ev) // the root is active with priority 0
	before := rm.HighestPriority()
	c := rm.NewChildMonitor(0)
	c.Skip(ev) // a non-triggering child event of the same priority
	after := rm.HighestPriority()
	fmt.Printf("REPLAY-HP before=%d after=%d incomplete=%v\nREPLAY-DONE\n", before, after, rm.incomplete)
}
`

// c10Replay: a skipped child must not change what the root monitor reports as highest priority.
func c10Replay(c *Checker, o *Obl) map[string]interface{} {
	if !strings.Contains(o.ID, "Skip") && !strings.Contains(o.ID, "activation-is-counted") {
		return nil
	}
	rp := map[string]interface{}{"confirmed": false, "replay": "engine: root monitor active with priority 0, a child monitor of priority 0 is skipped, HighestPriority sampled before and after"}
	run := runOverlayTestFlags(c.W.Repo, "engine", c10ReplaySrc, c.Dir, 60*time.Second, "")
	rp["replay_output"] = truncate(run.Out, 1500)
	if i := strings.Index(run.Out, "REPLAY-HP"); i >= 0 {
		line := run.Out[i:]
		if j := strings.Index(line, "\n"); j >= 0 {
			line = line[:j]
		}
		rp["outcome"] = line
		if !strings.Contains(line, "before=0 after=0") {
			rp["confirmed"] = true
			rp["outcome"] = line + " (the root is still active, so the highest priority must still be 0)"
		}
	} else {
		rp["outcome"] = "replay did not run to completion"
	}
	return rp
}

func init() {
	propSpecs["C10"].Replay = c10Replay
}
