package main

// Replay of solver models on the real code (DESIGN §5): go test -overlay injects an
// in-package test into /repo without writing there.

import (
	"bytes"
	"context"
	"encoding/json"
	"fmt"
	"go/types"
	"os"
	"os/exec"
	"path/filepath"
	"regexp"
	"strconv"
	"strings"
	"time"

	"golang.org/x/tools/go/ssa"
)

// parseModel extracts (define-fun name () sort value) entries from a z3/cvc5 model.
func parseModel(m string) map[string]string {
	res := map[string]string{}
	i := 0
	for {
		j := strings.Index(m[i:], "(define-fun ")
		if j < 0 {
			break
		}
		i += j
		// find matching paren
		depth, k := 0, i
		inStr := false
		for ; k < len(m); k++ {
			ch := m[k]
			if inStr {
				if ch == '"' {
					if k+1 < len(m) && m[k+1] == '"' {
						k++
						continue
					}
					inStr = false
				}
				continue
			}
			if ch == '"' {
				inStr = true
			} else if ch == '(' {
				depth++
			} else if ch == ')' {
				depth--
				if depth == 0 {
					break
				}
			}
		}
		if k >= len(m) {
			break
		}
		body := m[i+len("(define-fun ") : k]
		i = k
		// name () sort value
		sp := strings.IndexAny(body, " \n")
		if sp < 0 {
			continue
		}
		name := strings.Trim(body[:sp], "|")
		rest := strings.TrimSpace(body[sp:])
		if !strings.HasPrefix(rest, "()") {
			continue
		}
		rest = strings.TrimSpace(rest[2:])
		// sort: either atom or parenthesised
		var val string
		if strings.HasPrefix(rest, "(") {
			d := 0
			for x := 0; x < len(rest); x++ {
				if rest[x] == '(' {
					d++
				} else if rest[x] == ')' {
					d--
					if d == 0 {
						val = strings.TrimSpace(rest[x+1:])
						break
					}
				}
			}
		} else {
			sp := strings.IndexAny(rest, " \n")
			if sp < 0 {
				continue
			}
			val = strings.TrimSpace(rest[sp:])
		}
		res[name] = val
	}
	return res
}

var uEsc = regexp.MustCompile(`\\u\{([0-9a-fA-F]+)\}|\\u([0-9a-fA-F]{4})|\\x([0-9a-fA-F]{2})`)

// smtStringToGo converts an SMT-LIB string literal (with quotes) into a Go string.
func smtStringToGo(s string) (string, bool) {
	s = strings.TrimSpace(s)
	if len(s) < 2 || s[0] != '"' || s[len(s)-1] != '"' {
		return "", false
	}
	s = s[1 : len(s)-1]
	s = strings.ReplaceAll(s, `""`, `"`)
	out := uEsc.ReplaceAllStringFunc(s, func(m string) string {
		sub := uEsc.FindStringSubmatch(m)
		h := sub[1] + sub[2] + sub[3]
		v, _ := strconv.ParseUint(h, 16, 32)
		if v < 256 {
			return string([]byte{byte(v)})
		}
		return string(rune(v))
	})
	return out, true
}

func smtIntToGo(s string) (string, bool) {
	s = strings.TrimSpace(s)
	if strings.HasPrefix(s, "(- ") {
		v := strings.TrimSuffix(strings.TrimPrefix(s, "(- "), ")")
		if _, err := strconv.ParseInt(strings.TrimSpace(v), 10, 64); err == nil {
			return "-" + strings.TrimSpace(v), true
		}
		return "", false
	}
	if strings.HasPrefix(s, "#x") {
		v, err := strconv.ParseUint(s[2:], 16, 64)
		if err != nil {
			return "", false
		}
		return fmt.Sprintf("0x%x", v), true
	}
	if strings.HasPrefix(s, "#b") {
		v, err := strconv.ParseUint(s[2:], 2, 64)
		if err != nil {
			return "", false
		}
		return fmt.Sprintf("0x%x", v), true
	}
	if _, err := strconv.ParseInt(s, 10, 64); err == nil {
		return s, true
	}
	return "", false
}

// goLiteral renders the model value of a parameter as Go source.
func goLiteral(t types.Type, sort, val string) (string, bool) {
	switch sort {
	case "Str":
		s, ok := smtStringToGo(val)
		if !ok {
			return "", false
		}
		return strconv.Quote(s), true
	case "Bool":
		if val == "true" || val == "false" {
			return val, true
		}
	case "ISort":
		v, ok := smtIntToGo(val)
		if !ok {
			return "", false
		}
		if strings.HasPrefix(v, "0x") && !isUnsigned(t) {
			u, _ := strconv.ParseUint(v[2:], 16, 64)
			return fmt.Sprintf("%s(%d)", types.TypeString(t, qualName), int64(u)), true
		}
		return fmt.Sprintf("%s(%s)", types.TypeString(t, qualName), v), true
	case "F64":
		v, ok := smtIntToGo(val)
		if !ok {
			return "", false
		}
		return fmt.Sprintf("math.Float64frombits(%s)", v), true
	}
	return "", false
}

type replayRun struct {
	Out      string
	TimedOut bool
}

// runOverlayTest runs an in-package test file against the real repository.
func runOverlayTest(repo, pkgDir, src, scratch string, timeout time.Duration) replayRun {
	return runOverlayTestFlags(repo, pkgDir, src, scratch, timeout, "")
}

func runOverlayTestFlags(repo, pkgDir, src, scratch string, timeout time.Duration, flags string) replayRun {
	tf := filepath.Join(scratch, "zz_verif_replay_test.go")
	os.WriteFile(tf, []byte(src), 0644)
	ov := map[string]map[string]string{"Replace": {filepath.Join(repo, pkgDir, "zz_verif_replay_test.go"): tf}}
	ob, _ := json.Marshal(ov)
	ovf := filepath.Join(scratch, "overlay.json")
	os.WriteFile(ovf, ob, 0644)
	ctx, cancel := context.WithTimeout(context.Background(), timeout+30*time.Second)
	defer cancel()
	cmd := exec.CommandContext(ctx, "bash", "-c", fmt.Sprintf("%s cd %s && go test %s -overlay %s -vet=off -timeout %ds -count=1 -v -run '^TestVerifReplay$' ./%s", ulimitFor(flags), repo, flags, ovf, int(timeout.Seconds()), pkgDir))
	cmd.Env = append(os.Environ(), "GOFLAGS=-mod=mod", "GOPROXY=off", "GOSUMDB=off", "GOTOOLCHAIN=local")
	var out bytes.Buffer
	cmd.Stdout = &out
	cmd.Stderr = &out
	err := cmd.Run()
	r := replayRun{Out: out.String()}
	if ctx.Err() != nil || (err != nil && strings.Contains(out.String(), "test timed out")) {
		r.TimedOut = true
	}
	return r
}

func ulimitFor(flags string) string {
	if strings.Contains(flags, "-race") {
		return "" // the race runtime reserves a large virtual address range
	}
	return "ulimit -v 8000000;"
}

// replayRace: a Go snippet from the contract is run in-package under the race detector. par(fs...)
// runs every function 20000 times, all concurrently.
func (c *Checker) replayRace(o *Obl, e *enc, body string, rp map[string]interface{}) map[string]interface{} {
	// packages the snippet names
	extra := ""
	for _, im := range [][2]string{{"json.", "encoding/json"}, {"fmt.", "fmt"}, {"time.", "time"}, {"parser.", repoModule + "/parser"},
		{"scope.", repoModule + "/scope"}, {"util.", repoModule + "/util"}, {"engine.", repoModule + "/engine"}} {
		if regexp.MustCompile(`(^|[^A-Za-z0-9_.])`+regexp.QuoteMeta(im[0])).MatchString(body) && !strings.HasSuffix(im[1], "/"+e.f.Pkg.Pkg.Name()) {
			extra += "\t\"" + im[1] + "\"\n"
		}
	}
	src := fmt.Sprintf(`package %s

import (
	"sync"
	"testing"
`+extra+`)

func par(fs ...func()) {
	var wg sync.WaitGroup
	for _, f := range fs {
		wg.Add(1)
		go func(f func()) {
			defer wg.Done()
			for i := 0; i < 20000; i++ {
				f()
			}
		}(f)
	}
	wg.Wait()
}

func TestVerifReplay(t *testing.T) {
	%s
}
`, e.f.Pkg.Pkg.Name(), body)
	rp["replay"] = "sched: overlapping calls under the Go race detector"
	rp["test_source"] = src
	run := runOverlayTestFlags(c.W.Repo, pkgDirOf(e.f), src, c.Dir, 120*time.Second, "-race")
	rp["replay_output"] = truncate(run.Out, 3000)
	switch {
	case strings.Contains(run.Out, "fatal error: concurrent map"):
		rp["outcome"] = "fatal error: concurrent map access (process aborted)"
		rp["confirmed"] = true
	case strings.Contains(run.Out, "WARNING: DATA RACE"):
		rp["outcome"] = "race detector: DATA RACE"
		rp["confirmed"] = true
	case run.TimedOut:
		rp["outcome"] = "hang"
		rp["confirmed"] = true
	case strings.Contains(run.Out, "PASS"):
		rp["outcome"] = "no race observed"
	default:
		rp["outcome"] = "replay did not run to completion"
	}
	return rp
}

func pkgDirOf(f *ssa.Function) string {
	return strings.TrimPrefix(strings.TrimPrefix(f.Pkg.Pkg.Path(), repoModule), "/")
}

// replay tries to turn the model of a failed obligation into a run of the real code.
func (c *Checker) replay(o *Obl, e *enc, model string) map[string]interface{} {
	rp := map[string]interface{}{"confirmed": false}
	if e != nil && e.fc != nil && strings.HasPrefix(e.fc.Replay, "race:") {
		return c.replayRace(o, e, strings.TrimSpace(strings.TrimPrefix(e.fc.Replay, "race:")), rp)
	}
	if e != nil && e.fc != nil {
		switch kind := e.fc.Replay; {
		case strings.HasPrefix(kind, "ecal:"):
			return c.replayEcal(o, e, nil, strings.TrimSpace(strings.TrimPrefix(kind, "ecal:")), rp)
		case strings.HasPrefix(kind, "ecal-error:"):
			// the program must come back with an error value
			src := strings.TrimSpace(strings.TrimPrefix(kind, "ecal-error:"))
			rp["replay"] = "ecal program which must yield an error: " + src
			rp = c.runEcal(src, rp)
			if out, _ := rp["replay_output"].(string); strings.Contains(out, "REPLAY-ERROR <nil>") {
				rp["confirmed"] = true
				rp["outcome"] = "returned a value and no error: " + lineOf(out, "REPLAY-VALUE")
			}
			return rp
		case strings.HasPrefix(kind, "ecal-value:"):
			// "program => expected printed value"
			parts := strings.SplitN(strings.TrimPrefix(kind, "ecal-value:"), "=>", 2)
			if len(parts) == 2 {
				src, want := strings.TrimSpace(parts[0]), strings.TrimSpace(parts[1])
				rp["replay"] = "ecal program which must evaluate to " + want + ": " + src
				rp = c.runEcal(src, rp)
				if out, _ := rp["replay_output"].(string); strings.Contains(out, "REPLAY-DONE") && lineOf(out, "REPLAY-VALUE") != "REPLAY-VALUE "+want {
					rp["confirmed"] = true
					rp["outcome"] = "evaluated to " + strings.TrimPrefix(lineOf(out, "REPLAY-VALUE"), "REPLAY-VALUE ") + ", " + lineOf(out, "REPLAY-ERROR") + "; expected " + want
				}
				return rp
			}
		}
	}
	if e == nil || e.fc == nil || model == "" {
		rp["replay"] = "no replay recipe for this obligation"
		return rp
	}
	vals := parseModel(model)
	kind := e.fc.Replay
	switch {
	case kind == "call":
		return c.replayCall(o, e, vals, rp)
	case strings.HasPrefix(kind, "ecal:"):
		return c.replayEcal(o, e, vals, strings.TrimSpace(strings.TrimPrefix(kind, "ecal:")), rp)
	}
	rp["replay"] = "no replay recipe for this obligation"
	return rp
}

func (c *Checker) replayCall(o *Obl, e *enc, vals map[string]string, rp map[string]interface{}) map[string]interface{} {
	f := e.f
	var args []string
	recv := ""
	inputs := map[string]string{}
	for i, p := range f.Params {
		if i == 0 && f.Signature.Recv() != nil {
			pt, ok := p.Type().Underlying().(*types.Pointer)
			if !ok {
				rp["replay"] = "receiver is not a pointer"
				return rp
			}
			recv = "(&" + types.TypeString(pt.Elem(), qualName) + "{})"
			if named, ok := pt.Elem().(*types.Named); ok && named.Obj().Pkg() == f.Pkg.Pkg {
				recv = "(&" + named.Obj().Name() + "{})"
			}
			continue
		}
		v, ok := vals["p_"+p.Name()]
		if !ok {
			// unconstrained in the model: any value works
			switch e.sortOf(p.Type()) {
			case "Str":
				v = `""`
			case "Bool":
				v = "false"
			case "ISort":
				v = "0"
			case "F64":
				v = "#x0000000000000000"
			}
		}
		lit, ok := goLiteral(p.Type(), e.sortOf(p.Type()), v)
		if !ok {
			rp["replay"] = fmt.Sprintf("parameter %s of type %s cannot be materialised from the model value %s", p.Name(), p.Type(), truncate(v, 80))
			return rp
		}
		inputs[p.Name()] = lit
		args = append(args, lit)
	}
	rp["inputs"] = inputs
	e.lastModel = vals
	call := f.Name() + "(" + strings.Join(args, ", ") + ")"
	if recv != "" {
		call = recv + "." + call
	}
	nres := f.Signature.Results().Len()
	var lhs []string
	var prints []string
	for k := 0; k < nres; k++ {
		lhs = append(lhs, fmt.Sprintf("r%d", k))
		prints = append(prints, fmt.Sprintf("\tfmt.Printf(\"REPLAY-RESULT %d %%s\\n\", verifEnc(r%d))\n", k, k))
	}
	assign := ""
	if nres > 0 {
		assign = strings.Join(lhs, ", ") + " := "
	}
	src := fmt.Sprintf(`package %s

import (
	"fmt"
	"math"
	"strconv"
	"testing"
)

var _ = math.Float64frombits

func verifEnc(v interface{}) string {
	switch x := v.(type) {
	case string:
		return "S" + strconv.Quote(x)
	case bool:
		return "B" + strconv.FormatBool(x)
	case int:
		return "I" + strconv.Itoa(x)
	case int64:
		return "I" + strconv.FormatInt(x, 10)
	case uint64:
		return "U" + strconv.FormatUint(x, 10)
	case float64:
		return "F" + strconv.FormatUint(math.Float64bits(x), 10)
	case nil:
		return "N"
	case error:
		return "E" + strconv.Quote(x.Error())
	}
	return "?" + fmt.Sprintf("%%T", v)
}

func TestVerifReplay(t *testing.T) {
	defer func() {
		if r := recover(); r != nil {
			fmt.Printf("REPLAY-PANIC %%v\n", r)
		}
	}()
	%s%s
%s	fmt.Println("REPLAY-DONE")
}
`, f.Pkg.Pkg.Name(), assign, call, strings.Join(prints, ""))
	rp["test_source"] = src
	run := runOverlayTest(c.W.Repo, pkgDirOf(f), src, c.Dir, 60*time.Second)
	rp["replay_output"] = truncate(run.Out, 3000)
	switch {
	case strings.Contains(run.Out, "REPLAY-PANIC"):
		line := run.Out[strings.Index(run.Out, "REPLAY-PANIC"):]
		if i := strings.Index(line, "\n"); i >= 0 {
			line = line[:i]
		}
		rp["outcome"] = line
		if o.Class == "safe" {
			rp["confirmed"] = true
		} else {
			rp["confirmed"] = true
			rp["outcome"] = line + " (the function panics on this input, so no result satisfies the postcondition)"
		}
	case run.TimedOut:
		rp["outcome"] = "hang"
		rp["confirmed"] = true
	case strings.Contains(run.Out, "REPLAY-DONE"):
		rp["outcome"] = "returned normally"
		if o.Class == "post" {
			ok, detail := c.groundPostCheck(o, e, inputs, run.Out)
			rp["ground_check"] = detail
			if ok {
				rp["confirmed"] = true
				rp["outcome"] = "returned normally; the observed results violate the postcondition"
			}
		}
	default:
		rp["outcome"] = "replay did not run (build error?)"
	}
	return rp
}

var resLine = regexp.MustCompile(`REPLAY-RESULT (\d+) (.*)`)

// groundPostCheck evaluates the failed postcondition on the concrete inputs and the observed results.
func (c *Checker) groundPostCheck(o *Obl, e *enc, inputs map[string]string, out string) (bool, string) {
	// fresh encoder context for a ground query: parameters and results are constants
	g := newEnc(c.W, e.f, nil, &EncOpts{})
	g.now(g.heap)
	g.entry = g.heap.clone()
	var eqs []string
	for _, p := range e.f.Params {
		n := g.val(p)
		if v, ok := e.lastModel[n]; ok {
			eqs = append(eqs, fmt.Sprintf("(= %s %s)", n, v))
		}
	}
	var rets []string
	var rts []types.Type
	res := e.f.Signature.Results()
	obs := map[int]string{}
	for _, m := range resLine.FindAllStringSubmatch(out, -1) {
		k, _ := strconv.Atoi(m[1])
		obs[k] = m[2]
	}
	for k := 0; k < res.Len(); k++ {
		n := fmt.Sprintf("obs_r%d", k)
		g.declValue(n, res.At(k).Type())
		rets = append(rets, n)
		rts = append(rts, res.At(k).Type())
		v := obs[k]
		if v == "" {
			return false, "result not observed"
		}
		var lit string
		switch v[0] {
		case 'S':
			s, _ := strconv.Unquote(v[1:])
			lit = g.strLit(s)
		case 'B':
			lit = v[1:]
		case 'I':
			i, _ := strconv.ParseInt(v[1:], 10, 64)
			lit = g.ilit(i)
		case 'U':
			u, _ := strconv.ParseUint(v[1:], 10, 64)
			lit = g.ulit(u)
		case 'F':
			u, _ := strconv.ParseUint(v[1:], 10, 64)
			lit = fmt.Sprintf("#x%016x", u)
		default:
			return false, "observed result of unsupported kind: " + v
		}
		eqs = append(eqs, fmt.Sprintf("(= %s %s)", n, lit))
	}
	env := g.resultEnv(rets, rts)
	var clause *Clause
	for i := range e.fc.Ensures {
		if e.fc.Ensures[i].Label == o.Label {
			clause = &e.fc.Ensures[i]
		}
	}
	if clause == nil {
		return false, "postcondition clause not found"
	}
	t, err := env.boolTerm(clause.Expr)
	if err != nil {
		return false, err.Error()
	}
	q := g.smtDecls() + g.smtAsserts(0, len(g.asserts))
	for _, eq := range eqs {
		q += "(assert " + eq + ")\n"
	}
	q += "(assert (not " + t + "))\n(check-sat)\n"
	file := filepath.Join(c.Dir, "ground.smt2")
	os.WriteFile(file, []byte(q), 0644)
	for _, cfg := range solverCfgs(c.Timeout, g.strTheory) {
		outp, _ := runSolver(cfg, file, time.Duration(c.Timeout+3000)*time.Millisecond)
		r, _ := parseResults(outp, 1)
		if r[0] == "sat" {
			return true, "postcondition " + clause.Src + " is false for the observed results (" + cfg.Name + ")"
		}
		if r[0] == "unsat" {
			return false, "postcondition holds for the observed results: the model does not reproduce (" + cfg.Name + ")"
		}
	}
	return false, "ground check undecided"
}

// ecalLiteral renders a model value as ECAL source text.
func ecalLiteral(sort, val string) (string, bool) {
	switch sort {
	case "Str":
		s, ok := smtStringToGo(val)
		if !ok {
			return "", false
		}
		return s, true
	case "F64":
		v, ok := smtIntToGo(val)
		if !ok {
			return "", false
		}
		return "F64BITS:" + v, true
	case "ISort":
		return smtIntToGo(val)
	case "Bool":
		return val, val == "true" || val == "false"
	}
	return "", false
}

// replayEcal instantiates an ECAL program template ("... {name} ...") with model values and runs it.
func (c *Checker) replayEcal(o *Obl, e *enc, vals map[string]string, tmpl string, rp map[string]interface{}) map[string]interface{} {
	rp["replay"] = "ecal template: " + tmpl
	return c.runEcal(tmpl, rp)
}

// runEcal parses, validates and evaluates an ECAL source on the real interpreter with a panic guard.
func (c *Checker) runEcal(srcText string, rp map[string]interface{}) map[string]interface{} {
	src := fmt.Sprintf(`package interpreter

import (
	"fmt"
	"testing"

	"github.com/krotik/ecal/parser"
	"github.com/krotik/ecal/scope"
	"github.com/krotik/ecal/util"
)

func TestVerifReplay(t *testing.T) {
	defer func() {
		if r := recover(); r != nil {
			fmt.Printf("REPLAY-PANIC %%v\n", r)
		}
	}()
	erp := NewECALRuntimeProvider("replay", nil, util.NewMemoryLogger(100))
	ast, err := parser.ParseWithRuntime("replay", %s, erp)
	if err != nil {
		fmt.Printf("REPLAY-PARSE-ERROR %%v\n", err)
		return
	}
	if err = ast.Runtime.Validate(); err != nil {
		fmt.Printf("REPLAY-VALIDATE-ERROR %%v\n", err)
		return
	}
	vs := scope.NewScope(scope.GlobalScope)
	res, err := ast.Runtime.Eval(vs, make(map[string]interface{}), 1)
	fmt.Printf("REPLAY-VALUE %%v\nREPLAY-ERROR %%v\n", res, err)
	fmt.Println("REPLAY-DONE")
}
`, strconv.Quote(srcText))
	rp["ecal_source"] = srcText
	run := runOverlayTest(c.W.Repo, "interpreter", src, c.Dir, 30*time.Second)
	rp["replay_output"] = truncate(run.Out, 3000)
	switch {
	case strings.Contains(run.Out, "REPLAY-PANIC"):
		line := run.Out[strings.Index(run.Out, "REPLAY-PANIC"):]
		if i := strings.Index(line, "\n"); i >= 0 {
			line = line[:i]
		}
		rp["outcome"] = line
		rp["confirmed"] = true
	case run.TimedOut:
		rp["outcome"] = "hang"
		rp["confirmed"] = true
	case strings.Contains(run.Out, "REPLAY-DONE"):
		rp["outcome"] = "returned normally"
	default:
		rp["outcome"] = "replay did not run to completion"
	}
	return rp
}

func lineOf(out, prefix string) string {
	for _, l := range strings.Split(out, "\n") {
		if strings.HasPrefix(l, prefix) {
			return strings.TrimSpace(l)
		}
	}
	return ""
}
