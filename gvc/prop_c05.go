package main

import "regexp"

func init() {
	registerProp(&PropSpec{ID: "C05", Title: "Lexical scoping, functions, containers and objects behave as specified", MinObls: 15,
		Classes:     regexp.MustCompile(`^(pre|post|inv|dec|assert|finding|frame)`),
		TrustedBase: []string{"definer(s, n): nearest defining scope, defined by one unfolding step over the parent link (axiom nearest-definition)", "ghost call results"},
		Assumptions: []string{"parents of a scope are scopes of package scope", "strings.Split yields one part iff the separator does not occur", "strconv.Atoi as an uninterpreted partial function"},
		NotDecided:  []string{"object construction through new (templates, super lists, init)", "len / add / del / concat against the list and map model", "block-scope memoisation of NewChild (a block re-entered gets the same child scope)"}})
}
