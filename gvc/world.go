package main

import (
	"fmt"
	"go/ast"
	goparser "go/parser"
	"go/token"
	"go/types"
	"hash/fnv"
	"os"
	"sort"
	"strings"

	"golang.org/x/tools/go/packages"
	"golang.org/x/tools/go/ssa"
	"golang.org/x/tools/go/ssa/ssautil"
)

// World is everything loaded from /repo for one run.
type World struct {
	Repo      string
	Fset      *token.FileSet
	Prog      *ssa.Program
	Pkgs      []*packages.Package
	SPkgs     []*ssa.Package
	InRepo    map[*ssa.Package]bool
	Funcs     map[string]*ssa.Function // key -> function (repo functions + referenced library functions)
	FuncList  []*ssa.Function          // repo functions, sorted by key
	CS        *Contracts
	TPkgs     map[string]*types.Package // package name -> types package (repo + imports)
	cmpCache  map[string]bool
	initReach map[*ssa.Function]bool
	frozen    map[string]bool
	implCache map[string][]types.Type
	allNamed  []types.Type
	LoadErrs  []string
	immut     map[string]bool
	Mod       *ModInfo
	stable    map[string]bool
}

const repoModule = "github.com/krotik/ecal"

func LoadWorld(repo, specDir string) (*World, error) {
	cfg := &packages.Config{Mode: packages.LoadAllSyntax, Dir: repo, BuildFlags: []string{"-tags=verif"}}
	patterns := []string{"./parser", "./interpreter", "./scope", "./engine/...", "./util", "./stdlib", "./cli/tool", "./config"}
	if _, err := os.Stat(repo + "/parser"); err != nil {
		patterns = []string{"./..."} // not the ecal tree (engine self-test module)
	}
	pkgs, err := packages.Load(cfg, patterns...)
	if err != nil {
		return nil, err
	}
	w := &World{Repo: repo, InRepo: map[*ssa.Package]bool{}, Funcs: map[string]*ssa.Function{}, TPkgs: map[string]*types.Package{}, implCache: map[string][]types.Type{}}
	for _, p := range pkgs {
		for _, e := range p.Errors {
			w.LoadErrs = append(w.LoadErrs, e.Error())
		}
	}
	if len(w.LoadErrs) > 0 {
		return w, fmt.Errorf("package load errors: %s", strings.Join(w.LoadErrs, "; "))
	}
	prog, spkgs := ssautil.AllPackages(pkgs, ssa.InstantiateGenerics|ssa.GlobalDebug)
	prog.Build()
	w.Prog, w.Pkgs, w.SPkgs, w.Fset = prog, pkgs, spkgs, prog.Fset
	for _, p := range spkgs {
		if p != nil {
			w.InRepo[p] = true
		}
	}
	for _, p := range prog.AllPackages() {
		n := p.Pkg.Name()
		if old, ok := w.TPkgs[n]; ok && !strings.HasPrefix(p.Pkg.Path(), repoModule) && old != nil {
			// prefer repo packages and shorter (std) paths on name clashes
			if strings.HasPrefix(old.Path(), repoModule) || len(old.Path()) <= len(p.Pkg.Path()) {
				continue
			}
		}
		w.TPkgs[n] = p.Pkg
	}
	for f := range ssautil.AllFunctions(prog) {
		k := funcKey(f)
		if f.Pkg != nil && w.InRepo[f.Pkg] && f.Blocks != nil && f.Synthetic == "" {
			w.FuncList = append(w.FuncList, f)
			w.Funcs[k] = f
		} else if _, ok := w.Funcs[k]; !ok {
			w.Funcs[k] = f
		}
	}
	sort.Slice(w.FuncList, func(i, j int) bool { return funcKey(w.FuncList[i]) < funcKey(w.FuncList[j]) })
	w.CS = LoadContracts(repo, specDir)
	return w, nil
}

// funcKey: "engine.(*RuleMatcherKey).match", "parser.ndGuard$1", "strings.Index", "(*sync.Mutex).Lock".
func funcKey(f *ssa.Function) string {
	s := f.String()
	var pkg *types.Package
	if f.Pkg != nil {
		pkg = f.Pkg.Pkg
	} else if f.Object() != nil {
		pkg = f.Object().Pkg()
	}
	if pkg == nil {
		return s
	}
	path, name := pkg.Path(), pkg.Name()
	if strings.HasPrefix(s, "(") {
		// (*path.T).m  -> name.(*T).m for repo packages, (*name.T).m for library
		inner := s[1:strings.Index(s, ")")]
		rest := s[strings.Index(s, ")")+1:]
		star := ""
		if strings.HasPrefix(inner, "*") {
			star, inner = "*", inner[1:]
		}
		tn := strings.TrimPrefix(inner, path+".")
		if strings.HasPrefix(path, repoModule) {
			return name + ".(" + star + tn + ")" + rest
		}
		return "(" + star + name + "." + tn + ")" + rest
	}
	return name + "." + strings.TrimPrefix(s, path+".")
}

func shortPos(fset *token.FileSet, p token.Pos) string {
	if !p.IsValid() {
		return "?"
	}
	pos := fset.Position(p)
	return fmt.Sprintf("%s:%d", strings.TrimPrefix(pos.Filename, "/repo/"), pos.Line)
}

func tid(t types.Type) int {
	h := fnv.New32a()
	h.Write([]byte(types.TypeString(t, nil)))
	return int(h.Sum32() & 0x3fffffff)
}

func sname(s string) string {
	return strings.NewReplacer("(", "", ")", "", " ", "", "*", "P", "[", "L", "]", "J", "{", "", "}", "", "/", "_", ",", "_", "#", "_", "$", "_", ";", "_", "\"", "", "-", "_", ":", "_", "<", "", ">", "", "|", "_", "\\", "_").Replace(s)
}

func qualName(p *types.Package) string { return p.Name() }

// implementers returns the concrete types (T or *T) in the loaded program implementing iface.
func (w *World) implementers(it types.Type) []types.Type {
	key := types.TypeString(it, nil)
	if r, ok := w.implCache[key]; ok {
		return r
	}
	iface, ok := it.Underlying().(*types.Interface)
	if !ok {
		return nil
	}
	// a closed interface: only the declared dynamic types (iface-types; checked by ifaceTypeObligations)
	if n, ok := it.(*types.Named); ok && n.Obj().Pkg() != nil {
		dk := n.Obj().Pkg().Name() + "." + n.Obj().Name()
		if decl, ok := w.CS.IfaceTypes[dk]; ok {
			var res []types.Type
			for _, ts := range decl {
				if t, err := w.resolveType(n.Obj().Pkg().Name(), ts); err == nil && types.Implements(t, iface) {
					res = append(res, t)
				} else {
					w.CS.Errors = append(w.CS.Errors, fmt.Sprintf("%s: iface-types %s: %q is not a type implementing the interface", w.CS.IfaceTypesAt[dk], dk, ts))
				}
			}
			w.implCache[key] = res
			return res
		}
	}
	if w.allNamed == nil {
		for _, p := range w.Prog.AllPackages() {
			sc := p.Pkg.Scope()
			for _, n := range sc.Names() {
				if tn, ok := sc.Lookup(n).(*types.TypeName); ok && !tn.IsAlias() {
					if _, isIface := tn.Type().Underlying().(*types.Interface); !isIface {
						w.allNamed = append(w.allNamed, tn.Type())
					}
				}
			}
		}
	}
	var res []types.Type
	for _, t := range w.allNamed {
		if nt, ok := t.(*types.Named); ok && nt.TypeParams() != nil && nt.TypeParams().Len() > 0 {
			continue
		}
		if types.Implements(t, iface) {
			// the method set of *T includes that of T: both can be stored in the interface
			res = append(res, t, types.NewPointer(t))
		} else if pt := types.NewPointer(t); types.Implements(pt, iface) {
			res = append(res, pt)
		}
	}
	w.implCache[key] = res
	return res
}

// resolveType evaluates a type expression in the scope of the package with the given name.
func (w *World) resolveType(pkgName, expr string) (types.Type, error) {
	switch expr {
	case "int", "string", "bool", "float64", "uint64", "int64", "error", "byte", "rune", "uint":
		return types.Universe.Lookup(expr).Type(), nil
	case "any", "interface{}":
		return types.NewInterfaceType(nil, nil), nil
	}
	ex, err := goparser.ParseExpr(expr)
	if err != nil {
		return nil, err
	}
	return w.typeOfExpr(pkgName, ex)
}

func (w *World) typeOfExpr(pkgName string, ex ast.Expr) (types.Type, error) {
	switch x := ex.(type) {
	case *ast.Ident:
		if o := types.Universe.Lookup(x.Name); o != nil {
			if tn, ok := o.(*types.TypeName); ok {
				return tn.Type(), nil
			}
		}
		if x.Name == "any" {
			return types.NewInterfaceType(nil, nil), nil
		}
		p := w.TPkgs[pkgName]
		if p == nil {
			return nil, fmt.Errorf("unknown package %s", pkgName)
		}
		if tn, ok := p.Scope().Lookup(x.Name).(*types.TypeName); ok {
			return tn.Type(), nil
		}
		return nil, fmt.Errorf("unknown type %s.%s", pkgName, x.Name)
	case *ast.SelectorExpr:
		if id, ok := x.X.(*ast.Ident); ok {
			return w.typeOfExpr(id.Name, x.Sel)
		}
	case *ast.StarExpr:
		t, err := w.typeOfExpr(pkgName, x.X)
		if err != nil {
			return nil, err
		}
		return types.NewPointer(t), nil
	case *ast.ArrayType:
		t, err := w.typeOfExpr(pkgName, x.Elt)
		if err != nil {
			return nil, err
		}
		if x.Len == nil {
			return types.NewSlice(t), nil
		}
	case *ast.MapType:
		k, err := w.typeOfExpr(pkgName, x.Key)
		if err != nil {
			return nil, err
		}
		v, err := w.typeOfExpr(pkgName, x.Value)
		if err != nil {
			return nil, err
		}
		return types.NewMap(k, v), nil
	case *ast.InterfaceType:
		return types.NewInterfaceType(nil, nil), nil
	case *ast.ParenExpr:
		return w.typeOfExpr(pkgName, x.X)
	}
	return nil, fmt.Errorf("unsupported type expression")
}

// immutableArr: heap array of a field declared immutable (written only on objects that are
// fresh in the writing activation; checked by frame:immutable obligations at every store).
func (w *World) immutableArr(a string) bool {
	if w.immut == nil {
		w.immut = map[string]bool{}
		w.Mod = w.computeModInfo()
		for _, f := range w.Mod.immutableFields() {
			w.immut[f] = true
		}
		// package-level variables which only package initialisers write (error values, tables)
		written := map[string]bool{}
		for f, ws := range w.Mod.computeGlobalWrites() {
			isInit := isPkgInit(f)
			for _, g := range ws {
				if !isInit {
					written[g.Global] = true
				}
			}
		}
		for _, p := range w.Prog.AllPackages() {
			if !w.InRepo[p] {
				continue
			}
			for _, m := range p.Members {
				if g, ok := m.(*ssa.Global); ok {
					if !written[g.Pkg.Pkg.Name()+"."+g.Name()] && !w.globalAddrEscapes(g) {
						w.immut[arrGlobal(g)] = true
					}
				}
			}
		}
	}
	return w.immut[a]
}

// stableArr: field declared stable (see TypeDecl.Stable).
func (w *World) stableArr(a string) bool {
	if w.stable == nil {
		w.stable = map[string]bool{}
		for _, td := range w.CS.Types {
			for _, f := range td.Stable {
				w.stable["H_"+td.Pkg+"."+td.Type+"."+f] = true
			}
		}
	}
	return w.stable[a]
}

func (w *World) frozenArr(a string) bool {
	if w.frozen == nil {
		w.frozen = map[string]bool{}
		for _, td := range w.CS.Types {
			for _, f := range td.Frozen {
				w.frozen["H_"+td.Pkg+"."+td.Type+"."+f] = true
			}
		}
	}
	return w.frozen[a]
}

func fatalf(f string, a ...interface{}) {
	fmt.Fprintf(os.Stderr, "gvc: "+f+"\n", a...)
	os.Exit(2)
}

// implsComparable: every named type of the program implementing the interface (as T or *T) is comparable.
func (w *World) implsComparable(it types.Type) bool {
	key := "cmp:" + types.TypeString(it, nil)
	if r, ok := w.cmpCache[key]; ok {
		return r
	}
	if w.cmpCache == nil {
		w.cmpCache = map[string]bool{}
	}
	res := true
	var bad []string
	for _, t := range w.implementersAll(it) {
		if !types.Comparable(t) {
			res = false
			bad = append(bad, types.TypeString(t, nil))
		}
	}
	if dbgOn && !res {
		fmt.Printf("DBG uncomparable implementers of %s: %v\n", it, bad)
	}
	w.cmpCache[key] = res
	return res
}

// implementersAll ignores iface-types declarations (all named types of the program).
func (w *World) implementersAll(it types.Type) []types.Type {
	iface, ok := it.Underlying().(*types.Interface)
	if !ok {
		return nil
	}
	w.implementers(types.NewInterfaceType(nil, nil)) // fills allNamed
	var res []types.Type
	for _, t := range w.allNamed {
		if nt, ok := t.(*types.Named); ok && nt.TypeParams() != nil && nt.TypeParams().Len() > 0 {
			continue
		}
		if types.Implements(t, iface) {
			res = append(res, t, types.NewPointer(t))
		} else if pt := types.NewPointer(t); types.Implements(pt, iface) {
			res = append(res, pt)
		}
	}
	return res
}

// hasFloatImpl: some named floating-point type of the program implements the interface.
func (w *World) hasFloatImpl(it types.Type) bool {
	key := "flt:" + types.TypeString(it, nil)
	if r, ok := w.cmpCache[key]; ok {
		return r
	}
	if w.cmpCache == nil {
		w.cmpCache = map[string]bool{}
	}
	res := false
	for _, t := range w.implementersAll(it) {
		if b, ok := t.Underlying().(*types.Basic); ok && b.Info()&types.IsFloat != 0 {
			res = true
		}
	}
	w.cmpCache[key] = res
	return res
}

// globalAddrEscapes: the address of the variable is used other than for loads and stores of it.
func (w *World) globalAddrEscapes(g *ssa.Global) bool {
	for _, f := range w.FuncList {
		for _, b := range f.Blocks {
			for _, ins := range b.Instrs {
				var ops []*ssa.Value
				ops = ins.Operands(ops)
				for _, op := range ops {
					if op == nil || *op != ssa.Value(g) {
						continue
					}
					switch x := ins.(type) {
					case *ssa.UnOp:
					case *ssa.Store:
						if x.Val == ssa.Value(g) {
							return true
						}
					case *ssa.DebugRef:
					default:
						return true
					}
				}
			}
		}
	}
	return false
}
