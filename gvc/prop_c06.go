package main

import "regexp"

// C06: no ECAL program, sink attribute or event can crash the host process.
// Zero-annotation sweep: every function of interpreter, scope and util gets one obligation per
// instruction that panics on a bad *value* (division / remainder by zero, index and slice bounds,
// unchecked type assertion, comparing or hashing containers, writing a nil map, negative make
// length, explicit errorutil.Assert*). Contracts are only written where the argument needs them.
func init() {
	registerProp(&PropSpec{ID: "C06", Title: "No ECAL program, sink attribute or event can crash the host process", MinObls: 600,
		Classes:     regexp.MustCompile(`^(pre|post|inv|dec|assert:|safe:(div0|rem0|hash|ifacecmp|index|slice|assert|assert-type|nilmap|makelen))`),
		SweepPkgs:   map[string]bool{"interpreter": true, "scope": true, "util": true},
		SweepSkip:   regexp.MustCompile(`/interpreter/debug[a-z_]*\.go$`),
		TrustedBase: []string{"zero-annotation safety obligations: one per instruction that can panic on a bad value (see gvc/enc_instr.go)", "Go semantics of the panicking instructions (spec: run-time panics)"},
		Assumptions: []string{"the syntax tree is well formed for its node kinds (child counts per node kind: assumed per function as 'tree-well-formed', to be discharged by the parser contracts of C07)",
			"library functions do not panic on the arguments the runtime gives them"},
		NotDecided: []string{"nil-safety of the host object graph (AST nodes, tokens, runtime components, provider): the nil-dereference classes are not part of this check",
			"the debugger (interpreter/debug*.go) is covered by C15 / C16", "stack exhaustion by unbounded recursion and panics inside user-supplied Go code (outside the guarantee)"}})
}
