package main

import (
	"fmt"
	"go/ast"
	"go/token"
	"go/types"
	"regexp"
	"sort"
	"strconv"
	"strings"

	"golang.org/x/tools/go/ssa"
)

var ncallsRe = regexp.MustCompile(`ncalls\("([^"]+)"\)`)

func contractText(fc *FuncContract) string {
	var sb strings.Builder
	for _, c := range fc.Requires {
		sb.WriteString(c.Src + "\n")
	}
	for _, c := range fc.Ensures {
		sb.WriteString(c.Src + "\n")
	}
	for _, c := range fc.Asserts {
		sb.WriteString(c.Src + "\n")
	}
	for _, l := range fc.Loops {
		for _, c := range l.Invariants {
			sb.WriteString(c.Src + "\n")
		}
		for _, c := range l.Entry {
			sb.WriteString(c.Src + "\n")
		}
		for _, c := range l.Step {
			sb.WriteString(c.Src + "\n")
		}
	}
	return sb.String()
}

type privAlloc struct {
	ref  string
	arrs map[string]bool
}

func newEnc(w *World, f *ssa.Function, info *passInfo, opts *EncOpts) *enc {
	e := &enc{w: w, f: f, key: funcKey(f), names: map[ssa.Value]string{}, heap: hstate{}, heapSort: map[string]string{}, ver: map[string]int{},
		reach: map[*ssa.BasicBlock]string{}, heapAt: map[*ssa.BasicBlock]hstate{}, heapIn: map[*ssa.BasicBlock]hstate{}, locs: map[ssa.Value]loc{},
		notes: map[string]int{}, declared: map[string]bool{}, ordCount: map[string]int{}, info: info, localAlloc: map[string]bool{},
		assumptions: map[string]bool{}, callOrd: map[string]int{}, opts: opts, usedSpecs: map[string]bool{}, usedSites: map[string]bool{}, taint: map[ssa.Value][2]string{}, invDone: map[string]bool{}}
	e.rec = &passInfo{arrays: map[string]string{}, writes: map[ssa.Instruction][]string{}}
	e.fc = w.CS.Funcs[e.key]
	e.countKeys = map[string]bool{}
	e.callResults = map[string]cval{}
	e.callResultTypes = map[string]types.Type{}
	// result types of all callees (for callresult() on paths that have not made the call)
	for _, b := range f.Blocks {
		for _, ins := range b.Instrs {
			if c, ok := ins.(*ssa.Call); ok {
				if k := e.callKeyOf(&c.Call); k != "" {
					e.callResultTypes[k] = c.Type()
				}
			}
		}
	}
	if e.fc != nil {
		for _, m := range ncallsRe.FindAllStringSubmatch(contractText(e.fc), -1) {
			e.countKeys[m[1]] = true
		}
		e.fc.Used = true
		e.bv = e.fc.Ints == "bv64"
		e.strTheory = e.fc.Strs == "theory"
	}
	return e
}

func (h hstate) clone() hstate {
	c := hstate{}
	for k, v := range h {
		c[k] = v
	}
	return c
}

func (e *enc) analyse() {
	f := e.f
	e.back = map[[2]*ssa.BasicBlock]bool{}
	e.headers = map[*ssa.BasicBlock]int{}
	var hs []*ssa.BasicBlock
	for _, b := range f.Blocks {
		for _, s := range b.Succs {
			if s.Dominates(b) {
				e.back[[2]*ssa.BasicBlock{b, s}] = true
				if _, ok := e.headers[s]; !ok {
					e.headers[s] = 0
					hs = append(hs, s)
				}
			}
		}
	}
	// loop ordinal = source order of the loop statements (position of header's first positioned instruction / block index)
	sort.Slice(hs, func(i, j int) bool { return e.loopPos(hs[i]) < e.loopPos(hs[j]) })
	for i, h := range hs {
		e.headers[h] = i + 1
	}
	// loop bodies: blocks from which a latch of h is reachable without passing h, dominated by h
	e.loopBody = map[*ssa.BasicBlock]map[*ssa.BasicBlock]bool{}
	for _, h := range hs {
		body := map[*ssa.BasicBlock]bool{h: true}
		var stack []*ssa.BasicBlock
		for _, p := range h.Preds {
			if e.back[[2]*ssa.BasicBlock{p, h}] {
				stack = append(stack, p)
			}
		}
		for len(stack) > 0 {
			b := stack[len(stack)-1]
			stack = stack[:len(stack)-1]
			if body[b] {
				continue
			}
			body[b] = true
			for _, p := range b.Preds {
				stack = append(stack, p)
			}
		}
		e.loopBody[h] = body
	}
	seen := map[*ssa.BasicBlock]bool{}
	var visit func(b *ssa.BasicBlock)
	visit = func(b *ssa.BasicBlock) {
		if seen[b] {
			return
		}
		seen[b] = true
		for i := len(b.Succs) - 1; i >= 0; i-- {
			s := b.Succs[i]
			if !e.back[[2]*ssa.BasicBlock{b, s}] {
				visit(s)
			}
		}
		e.order = append([]*ssa.BasicBlock{b}, e.order...)
	}
	visit(f.Blocks[0])
}

// loopPos: source position used to order loops. The builder creates loop blocks in source order,
// so the block index of the header is a faithful proxy when positions are missing.
func (e *enc) loopPos(h *ssa.BasicBlock) int {
	return h.Index
}

func (e *enc) edgeCond(p, b *ssa.BasicBlock) string {
	if iff, ok := p.Instrs[len(p.Instrs)-1].(*ssa.If); ok {
		c := e.val(iff.Cond)
		if p.Succs[0] == b && p.Succs[1] == b {
			return "true"
		}
		if p.Succs[0] == b {
			return c
		}
		return "(not " + c + ")"
	}
	return "true"
}

func (e *enc) loopWrites(h *ssa.BasicBlock) (all bool, arrs map[string]bool) {
	arrs = map[string]bool{}
	if e.info == nil {
		return true, arrs
	}
	for b := range e.loopBody[h] {
		for _, ins := range b.Instrs {
			for _, a := range e.info.writes[ins] {
				if a == "*" {
					all = true
				} else {
					arrs[a] = true
				}
			}
		}
	}
	return
}

func (e *enc) run() (ok bool) {
	defer func() {
		if r := recover(); r != nil {
			e.note(fmt.Sprint("panic: ", r))
			ok = false
			if debugPanics {
				panic(r)
			}
		}
	}()
	f := e.f
	e.analyse()
	if e.info != nil {
		names := []string{}
		for a := range e.info.arrays {
			names = append(names, a)
		}
		sort.Strings(names)
		for _, a := range names {
			e.harr(a, e.info.arrays[a])
		}
	}
	e.now(e.heap)
	e.entry = e.heap.clone()
	for _, p := range f.Params {
		e.val(p)
	}
	for _, fv := range f.FreeVars {
		e.val(fv)
	}
	if f.Signature.Recv() != nil && len(f.Params) > 0 {
		if _, ok := f.Params[0].Type().Underlying().(*types.Pointer); ok {
			// pointer receivers are non-nil: checked at every static call site (safe:nil-recv)
			e.assume(fmt.Sprintf("(not (= %s 0))", e.val(f.Params[0])))
		}
	}
	e.entryAssumptions()
	e.entryAt = len(e.asserts)
	for _, b := range e.order {
		e.curBlock = b
		e.curInstr = nil
		r := fmt.Sprintf("R_%d", b.Index)
		e.reach[b] = r
		e.decl(r, "Bool")
		if b.Index == 0 {
			e.assume(r)
		} else {
			e.mergeInto(b, r)
		}
		e.heapIn[b] = e.heap.clone()
		phisDone := false
		for _, ins := range b.Instrs {
			if _, isPhi := ins.(*ssa.Phi); !isPhi && !phisDone {
				phisDone = true
				if n, ok := e.headers[b]; ok {
					e.assumeLoopInvariants(b, n)
				}
			}
			e.curInstr = ins
			e.instr(b, ins)
		}
		e.curInstr = nil
		e.heapAt[b] = e.heap.clone()
		if e.assertsEnd == nil {
			e.assertsEnd = map[*ssa.BasicBlock]int{}
		}
		e.assertsEnd[b] = len(e.asserts)
	}
	e.loopObligations()
	return true
}

var debugPanics = false

func (e *enc) mergeInto(b *ssa.BasicBlock, r string) {
	_, isHeader := e.headers[b]
	var ins []string
	var preds []*ssa.BasicBlock
	for _, p := range b.Preds {
		if e.back[[2]*ssa.BasicBlock{p, b}] || e.reach[p] == "" {
			continue
		}
		preds = append(preds, p)
		ins = append(ins, fmt.Sprintf("(and %s %s)", e.reach[p], e.edgeCond(p, b)))
	}
	if len(ins) == 0 {
		e.assume(fmt.Sprintf("(= %s false)", r))
	} else if len(ins) == 1 {
		e.assume(fmt.Sprintf("(= %s %s)", r, ins[0]))
	} else {
		e.assume(fmt.Sprintf("(= %s (or %s))", r, strings.Join(ins, " ")))
	}
	arrs := []string{}
	for a := range e.heapSort {
		arrs = append(arrs, a)
	}
	sort.Strings(arrs)
	var all bool
	var mod map[string]bool
	if isHeader {
		all, mod = e.loopWrites(b)
	}
	arrs = append([]string{"G_now"}, arrs...) // clock first (see havocHeap)
	for k, a := range arrs {
		if a == "G_now" && k > 0 {
			continue
		}
		if _, known := e.heapSort[a]; !known {
			continue
		}
		if isHeader && (a == "G_held" || a == "G_rheld") && mod[a] {
			// loops leave the lock set as they find it: assumed at the head, checked on every back edge
			if len(preds) > 0 {
				e.heap[a] = e.heapAt[preds[0]][a]
				if len(preds) > 1 {
					nv := e.bump(a)
					for _, p := range preds {
						e.assume(fmt.Sprintf("(=> (and %s %s) (= %s %s))", e.reach[p], e.edgeCond(p, b), nv, e.hnameIn(a, e.heapAt[p])))
					}
				}
				e.lockLoops = append(e.lockLoops, lockLoop{b, a, e.heap[a]})
			}
			continue
		}
		if isHeader && !mod[a] && all && e.w.immutableArr(a) {
			// constructor-only fields of pre-existing objects do not change (see havocHeap)
			vers := map[int]bool{}
			for _, p := range preds {
				vers[e.heapAt[p][a]] = true
			}
			if len(vers) == 1 {
				for v := range vers {
					e.heap[a] = v
				}
				continue
			}
		}
		if isHeader && (mod[a] || (all && (!isGhostArr(a) || a == "G_now"))) {
			// havoc at loop head; G_now only grows
			var lo string
			if a == "G_now" && len(preds) > 0 {
				lo = e.hnameIn(a, e.heapAt[preds[0]])
			}
			e.heap[a] = e.ver[a]
			nv := e.bump(a)
			if lo != "" && len(preds) == 1 {
				e.assume(fmt.Sprintf("(>= %s %s)", nv, lo))
			}
			// a field only stored, inside the loop, into objects this activation allocated itself:
			// every other object that existed before the loop keeps its value
			if (mod[a] || e.w.frozenArr(a)) && (!all || e.w.frozenArr(a)) && strings.HasPrefix(a, "H_") && strings.HasPrefix(e.heapSort[a], "(Array Ref ") {
				if own, ok := e.loopStoresOnlyToOwnAllocs(b, a); ok {
					var entry *ssa.BasicBlock
					n := 0
					for _, p := range preds {
						if !e.back[[2]*ssa.BasicBlock{p, b}] {
							entry = p
							n++
						}
					}
					if n == 1 && e.heapAt[entry] != nil {
						conds := []string{fmt.Sprintf("(< (birth r) %s)", e.now(e.heapAt[entry]))}
						for _, o := range own {
							conds = append(conds, fmt.Sprintf("(not (= r %s))", o))
						}
						e.assume(fmt.Sprintf("(forall ((r Ref)) (! (=> (and %s) (= (select %s r) (select %s r))) :pattern ((select %s r))))",
							strings.Join(conds, " "), nv, e.hnameIn(a, e.heapAt[entry]), nv))
					}
				}
			}
			continue
		}
		vers := map[int]bool{}
		for _, p := range preds {
			vers[e.heapAt[p][a]] = true
		}
		if len(vers) == 1 {
			for v := range vers {
				e.heap[a] = v
			}
			continue
		}
		if len(vers) == 0 {
			continue
		}
		nv := e.bump(a)
		for _, p := range preds {
			e.assume(fmt.Sprintf("(=> (and %s %s) (= %s %s))", e.reach[p], e.edgeCond(p, b), nv, e.hnameIn(a, e.heapAt[p])))
		}
	}
}

// ---- name resolution for contract clauses ----

// resolveLocal finds the SSA value holding local variable `name` at the head of block at.
// cellOf: variables that are captured or address-taken live in an Alloc cell for their whole life.
func (e *enc) cellOf(name string) (ssa.Value, bool) {
	var found ssa.Value
	n := 0
	for _, b := range e.f.Blocks {
		for _, ins := range b.Instrs {
			if a, ok := ins.(*ssa.Alloc); ok && a.Comment == name {
				if _, isStruct := a.Type().Underlying().(*types.Pointer).Elem().Underlying().(*types.Struct); isStruct && !a.Heap {
					continue
				}
				found = a
				n++
			}
		}
	}
	if n == 1 {
		return found, true
	}
	return nil, false
}

// defSiteValue: go/ssa reports the zero value at the defining occurrence of a variable declared
// with := (the DebugRef precedes the assignment). For such a DebugRef the value the variable
// really holds is taken from its uses, provided they all agree (a variable assigned once).
func (e *enc) defSiteValue(x *ssa.DebugRef) (ssa.Value, bool, bool) {
	obj := x.Object()
	id, isIdent := x.Expr.(*ast.Ident)
	if _, isConst := x.X.(*ssa.Const); !isConst || obj == nil || !isIdent || id.Pos() != obj.Pos() || x.IsAddr {
		return x.X, x.IsAddr, true
	}
	var found ssa.Value
	if dbgOn {
		fmt.Printf("DBG defsite %v obj=%v\n", x, obj)
	}
	for _, b := range e.f.Blocks {
		for _, ins := range b.Instrs {
			if d, ok := ins.(*ssa.DebugRef); ok && d != x && d.Object() == obj {
				if di, ok := d.Expr.(*ast.Ident); ok && di.Pos() == obj.Pos() {
					continue
				}
				if d.IsAddr || (found != nil && found != d.X) {
					return x.X, x.IsAddr, true // assigned more than once: the declaration really holds the zero value
				}
				found = d.X
			}
		}
	}
	if found == nil {
		return x.X, x.IsAddr, true
	}
	// the value must have been computed before the defining occurrence (x := <value>)
	ins, ok := found.(ssa.Instruction)
	if !ok {
		return x.X, x.IsAddr, true
	}
	// (go/ssa emits the defining DebugRef either just before or just after the value; same block or a dominating one)
	before := ins.Block() == x.Block() || ins.Block().Dominates(x.Block())
	if !before {
		return x.X, x.IsAddr, true
	}
	return found, false, true
}

func (e *enc) resolveLocal(name string, at *ssa.BasicBlock) (ssa.Value, bool, bool) {
	if c, ok := e.cellOf(name); ok {
		return c, true, true
	}
	for b := at; b != nil; b = b.Idom() {
		for i := len(b.Instrs) - 1; i >= 0; i-- {
			switch x := b.Instrs[i].(type) {
			case *ssa.DebugRef:
				if b == at {
					continue // uses inside the header itself come after the phis; prefer phis
				}
				if id, ok := x.Expr.(*ast.Ident); ok && id.Name == name {
					if v, a, ok := e.defSiteValue(x); ok {
						return v, a, true
					}
				}
			case *ssa.Phi:
				if x.Comment == name {
					return x, false, true
				}
			}
		}
	}
	// address-taken or captured variables: Alloc with that comment
	for _, b := range e.f.Blocks {
		for _, ins := range b.Instrs {
			if a, ok := ins.(*ssa.Alloc); ok && a.Comment == name {
				return a, true, true
			}
		}
	}
	for _, fv := range e.f.FreeVars {
		if fv.Name() == name {
			return fv, true, true
		}
	}
	for _, p := range e.f.Params {
		if p.Name() == name {
			return p, false, true
		}
	}
	return nil, false, false
}

// resolveLocalAtEnd: like resolveLocal but including the definitions inside block at itself.
func (e *enc) resolveLocalAtEnd(name string, at *ssa.BasicBlock) (ssa.Value, bool, bool) {
	if c, ok := e.cellOf(name); ok {
		return c, true, true
	}
	for i := len(at.Instrs) - 1; i >= 0; i-- {
		switch x := at.Instrs[i].(type) {
		case *ssa.DebugRef:
			if id, ok := x.Expr.(*ast.Ident); ok && id.Name == name {
				if v, a, ok := e.defSiteValue(x); ok {
					return v, a, true
				}
			}
		case *ssa.Phi:
			if x.Comment == name {
				return x, false, true
			}
		}
	}
	if at.Idom() == nil {
		return nil, false, false
	}
	return e.resolveLocalAtEnd(name, at.Idom())
}

// resolveLocalBefore: the value of a local just before instruction idx of block at.
func (e *enc) resolveLocalBefore(name string, at *ssa.BasicBlock, idx int) (ssa.Value, bool, bool) {
	if c, ok := e.cellOf(name); ok {
		return c, true, true
	}
	for i := idx - 1; i >= 0 && i < len(at.Instrs); i-- {
		switch x := at.Instrs[i].(type) {
		case *ssa.DebugRef:
			if id, ok := x.Expr.(*ast.Ident); ok && id.Name == name {
				if v, a, ok := e.defSiteValue(x); ok {
					return v, a, true
				}
			}
		case *ssa.Phi:
			if x.Comment == name {
				return x, false, true
			}
		}
	}
	if at.Idom() != nil {
		if v, a, ok := e.resolveLocalAtEnd(name, at.Idom()); ok {
			return v, a, ok
		}
	}
	return e.resolveLocal(name, e.f.Blocks[0])
}

func (e *enc) headerByOrdinal(n int) *ssa.BasicBlock {
	for h, k := range e.headers {
		if k == n {
			return h
		}
	}
	return nil
}

func (e *enc) paramEnv() *cenv {
	env := e.newEnv()
	for _, p := range e.f.Params {
		env.vars[p.Name()] = cval{e.val(p), e.sortOf(p.Type()), p.Type()}
	}
	// captured variables of a closure: their current content
	if len(e.f.FreeVars) > 0 {
		base := env.lookup
		env.lookup = func(name string) (cval, bool) {
			for _, fv := range e.f.FreeVars {
				if fv.Name() == name {
					e.val(fv)
					if l, ok := e.locs[fv]; ok && l.kind != "struct" {
						return cval{e.loadIn(l, env.st), l.sort, l.t}, true
					}
				}
			}
			if base != nil {
				return base(name)
			}
			return cval{}, false
		}
	}
	return env
}

func (e *enc) entryAssumptions() {
	// a function is entered with no lock of this thread's lock set held, unless its contract says otherwise
	if e.fc == nil || e.fc.Opts["locks-at-entry"] == "" {
		for _, g := range []string{"G_held", "G_rheld"} {
			e.harr(g, "(Array Ref Bool)")
			e.entry[g] = e.heap[g]
			e.assume(fmt.Sprintf("(= %s ((as const (Array Ref Bool)) false))", e.hnameIn(g, e.entry)))
		}
	}
	for k := range e.countKeys {
		e.harr("G_n:"+k, "Int")
		e.entry["G_n:"+k] = e.heap["G_n:"+k]
		e.assume(fmt.Sprintf("(= %s 0)", e.hnameIn("G_n:"+k, e.entry)))
	}
	e.assumeIfaceRequires()
	e.assumeGlobalInvariants()
	if e.fc == nil {
		return
	}
	env := e.paramEnv()
	env.st = e.entry
	env.old = e.entry
	for _, c := range e.fc.Requires {
		t, err := env.boolTerm(c.Expr)
		if err != nil {
			e.contractError(c, err)
			continue
		}
		e.assume(t)
	}
	for _, c := range e.fc.Assumes {
		t, err := env.boolTerm(c.Expr)
		if err != nil {
			e.contractError(c, err)
			continue
		}
		e.assume(t)
		e.assumptions[fmt.Sprintf("%s assumes %s: %s", e.key, c.Label, c.Src)] = true
	}
}

func (e *enc) contractError(c Clause, err error) {
	o := e.add("contract", "unresolved", token.NoPos, "true", "false")
	o.Note = fmt.Sprintf("%s:%d: %q: %v", c.File, c.Line, c.Src, err)
	o.Struct = true
}

// loopEnv builds the environment for clauses of the loop with header h. If edge is non-nil,
// phis of h are replaced by their incoming value along that edge.
func (e *enc) loopEnv(h *ssa.BasicBlock, edge *ssa.BasicBlock, st hstate) *cenv {
	env := e.newEnv()
	env.st = st
	env.old = e.entry
	env.lookup = func(name string) (cval, bool) {
		v, isAddr, ok := e.resolveLocal(name, h)
		if dbgOn {
			fmt.Printf("DBG resolve %s at %d in %s -> %v %v %v\n", name, h.Index, e.f.String(), v, isAddr, ok)
		}
		if !ok {
			return cval{}, false
		}
		if phi, isPhi := v.(*ssa.Phi); isPhi && phi.Block() == h && edge != nil {
			for k, p := range h.Preds {
				if p == edge {
					v = phi.Edges[k]
				}
			}
		}
		if isAddr {
			e.val(v)
			l, ok := e.locs[v]
			if !ok || l.kind == "struct" {
				return cval{}, false
			}
			return cval{e.loadIn(l, st), l.sort, l.t}, true
		}
		return cval{e.val(v), e.sortOf(v.Type()), v.Type()}, true
	}
	for _, p := range e.f.Params {
		name := p.Name()
		env.vars["old_"+name] = cval{e.val(p), e.sortOf(p.Type()), p.Type()}
	}
	env.atEntry = func() *cenv {
		var ep *ssa.BasicBlock
		for _, p := range h.Preds {
			if !e.back[[2]*ssa.BasicBlock{p, h}] && e.reach[p] != "" {
				ep = p
			}
		}
		if ep == nil {
			return env
		}
		ne := e.loopEnv(h, ep, e.heapAt[ep])
		ne.atEntry = nil
		return ne
	}
	return env
}

func (e *enc) assumeLoopInvariants(h *ssa.BasicBlock, n int) {
	R := e.reach[h]
	// automatic counter invariants
	for _, ins := range h.Instrs {
		phi, ok := ins.(*ssa.Phi)
		if !ok {
			break
		}
		if e.sortOf(phi.Type()) != "ISort" {
			continue
		}
		dir := 0
		var entries []ssa.Value
		okShape := true
		for k, p := range h.Preds {
			ev := phi.Edges[k]
			if e.back[[2]*ssa.BasicBlock{p, h}] {
				bo, ok := ev.(*ssa.BinOp)
				if !ok {
					okShape = false
					break
				}
				c, isC := bo.Y.(*ssa.Const)
				if bo.X != phi || !isC || c.Value == nil {
					okShape = false
					break
				}
				cv, _ := constantInt(c)
				d := 0
				if bo.Op == token.ADD && cv > 0 || bo.Op == token.SUB && cv < 0 {
					d = 1
				} else if bo.Op == token.SUB && cv > 0 || bo.Op == token.ADD && cv < 0 {
					d = -1
				} else {
					okShape = false
					break
				}
				if dir != 0 && dir != d {
					okShape = false
					break
				}
				dir = d
			} else {
				entries = append(entries, ev)
			}
		}
		if !okShape || dir == 0 || len(entries) != 1 {
			continue
		}
		ph := e.val(phi)
		ev := e.val(entries[0])
		op := token.GEQ
		if dir < 0 {
			op = token.LEQ
		}
		e.assumeAt(R, e.icmp(op, ph, ev, isUnsigned(phi.Type())))
		e.assumptions["loop counters do not overflow (automatic counter invariant)"] = true
	}
	if e.fc == nil {
		return
	}
	lc := e.fc.Loops[n]
	if lc == nil {
		return
	}
	env := e.loopEnv(h, nil, e.heapIn[h])
	for _, c := range lc.Invariants {
		t, err := env.boolTerm(c.Expr)
		if err != nil {
			e.contractError(c, err)
			continue
		}
		e.assumeAt(R, t)
	}
}

func constantInt(c *ssa.Const) (int64, bool) {
	if c.Value == nil {
		return 0, false
	}
	return c.Int64(), true
}

type lockLoop struct {
	h   *ssa.BasicBlock
	arr string
	ver int
}

func (e *enc) lockLoopObligations() {
	for _, ll := range e.lockLoops {
		for _, p := range ll.h.Preds {
			if !e.back[[2]*ssa.BasicBlock{p, ll.h}] || e.reach[p] == "" {
				continue
			}
			path := fmt.Sprintf("(and %s %s)", e.reach[p], e.edgeCond(p, ll.h))
			goal := fmt.Sprintf("(= %s |%s@%d|)", e.hnameIn(ll.arr, e.heapAt[p]), ll.arr, ll.ver)
			pos := token.NoPos
			if len(p.Instrs) > 0 {
				pos = e.nearPos(p.Instrs[len(p.Instrs)-1])
			}
			e.add("lock", fmt.Sprintf("loop-balance:loop%d", e.headers[ll.h]), pos, path, goal)
		}
	}
}

func (e *enc) loopObligations() {
	e.lockLoopObligations()
	if e.fc == nil {
		return
	}
	var hs []*ssa.BasicBlock
	for h := range e.headers {
		hs = append(hs, h)
	}
	sort.Slice(hs, func(i, j int) bool { return e.headers[hs[i]] < e.headers[hs[j]] })
	for _, h := range hs {
		n := e.headers[h]
		lc := e.fc.Loops[n]
		if lc == nil {
			if len(e.fc.Ensures) > 0 && !e.fc.Trusted {
				e.note(fmt.Sprintf("loop %d has no invariant", n))
			}
			continue
		}
		for _, p := range h.Preds {
			if e.reach[p] == "" {
				continue
			}
			isBack := e.back[[2]*ssa.BasicBlock{p, h}]
			env := e.loopEnv(h, p, e.heapAt[p])
			path := fmt.Sprintf("(and %s %s)", e.reach[p], e.edgeCond(p, h))
			// What holds on entry is established by the code before the loop: an entry obligation sees the
			// assumptions made up to the end of the predecessor block only. (The invariant assumed at the
			// head speaks about the same symbols wherever it mentions values the loop does not change;
			// seen from here it would prove itself.) Facts produced while translating the clause go with it.
			entryGoal := func(c Clause) (string, string, bool) {
				before := len(e.asserts)
				t, err := env.boolTerm(c.Expr)
				if err != nil {
					e.contractError(c, err)
					return "", "", false
				}
				pth := path
				if len(e.asserts) > before {
					pth = "(and " + path + " " + strings.Join(e.asserts[before:], " ") + ")"
					e.asserts = e.asserts[:before:before]
				}
				return t, pth, true
			}
			if !isBack {
				for _, c := range lc.Entry {
					t, pth, ok := entryGoal(c)
					if !ok {
						continue
					}
					o := e.add("inv", fmt.Sprintf("loop%d:%s:at-entry", n, c.Label), token.NoPos, pth, t)
					o.At = e.assertsEnd[p]
				}
			}
			for _, c := range lc.Invariants {
				var t, pth string
				if isBack {
					var err error
					t, err = env.boolTerm(c.Expr)
					if err != nil {
						e.contractError(c, err)
						continue
					}
					pth = path
				} else {
					var ok bool
					if t, pth, ok = entryGoal(c); !ok {
						continue
					}
				}
				kind := "entry"
				if isBack {
					kind = "step"
				}
				lbl := fmt.Sprintf("loop%d:%s", n, kind)
				if c.Label != "" {
					lbl = fmt.Sprintf("loop%d:%s:%s", n, c.Label, kind)
				}
				pos := token.NoPos
				if len(p.Instrs) > 0 {
					pos = e.nearPos(p.Instrs[len(p.Instrs)-1])
				}
				o := e.add("inv", lbl, pos, pth, t)
				if !isBack {
					o.At = e.assertsEnd[p]
				}
			}
			if isBack {
				for _, c := range lc.Step {
					henv := e.loopEnv(h, nil, e.heapIn[h])
					latch := p
					henv.nextEnv = func() *cenv {
						ne := e.loopEnv(h, latch, e.heapAt[latch])
						base := ne.lookup
						ne.lookup = func(name string) (cval, bool) {
							// loop-carried names: the value flowing back into the header phi (an inner loop may
							// carry a variable of the same name, e.g. rangeindex)
							if v, _, ok := e.resolveLocal(name, h); ok {
								if phi, isPhi := v.(*ssa.Phi); isPhi && phi.Block() == h {
									return base(name)
								}
							}
							// names that are not loop-carried are resolved at the end of the iteration
							if v, isAddr, ok := e.resolveLocalAtEnd(name, latch); ok {
								if phi, isPhi := v.(*ssa.Phi); !(isPhi && phi.Block() == h) && !isAddr {
									return cval{e.val(v), e.sortOf(v.Type()), v.Type()}, true
								}
							}
							return base(name)
						}
						return ne
					}
					t, err := henv.boolTerm(c.Expr)
					if err != nil {
						e.contractError(c, err)
						continue
					}
					e.add("inv", fmt.Sprintf("loop%d:%s:iteration", n, c.Label), token.NoPos, path, t)
				}
			}
			if isBack && lc.Decreases != nil {
				henv := e.loopEnv(h, nil, e.heapIn[h])
				d0, err0 := henv.term(lc.Decreases.Expr)
				d1, err1 := env.term(lc.Decreases.Expr)
				if err0 != nil || err1 != nil {
					e.contractError(*lc.Decreases, fmt.Errorf("%v %v", err0, err1))
					continue
				}
				goal := fmt.Sprintf("(and %s %s)", e.ige0(d0.s), e.icmp(token.LSS, d1.s, d0.s, false))
				e.add("dec", fmt.Sprintf("loop%d", n), token.NoPos, path, goal)
			}
		}
	}
}

// finish adds the axioms that mention uninterpreted spec functions used by this VC.
func (e *enc) finish() {
	if e.fc != nil {
		if _, ok := e.fc.Opts["io-calls"]; ok {
			o := e.add("frame", "io-scan", e.f.Pos(), "true", "true")
			o.Struct = true
			o.Note = "every static call of the function was compared with the allowed file/network functions"
		}
		for _, sc := range e.fc.Asserts {
			if !e.usedSites[sc.Site] {
				e.contractError(sc.Clause, fmt.Errorf("site %q does not exist in the function any more", sc.Site))
			}
		}
	}
	done := map[string]bool{}
	var axioms []string
	for changed := true; changed; {
		changed = false
		for ai, ax := range e.w.CS.Axioms {
			if ax.Lemma {
				continue
			}
			uses := false
			src := ax.Expr.String()
			// states to instantiate for: the entry state, or every recorded state of the heap-dependent
			// spec functions the axiom mentions
			states := map[string]hstate{}
			for s := range e.usedSpecs {
				if strings.Contains(src, s+"(") {
					uses = true
					for suffix, st := range e.specStates[s] {
						states[suffix] = st
					}
				}
			}
			if !uses {
				continue
			}
			if len(states) == 0 {
				states["entry"] = e.entry
			}
			var sk []string
			for k := range states {
				sk = append(sk, k)
			}
			sort.Strings(sk)
			for _, k := range sk {
				key := fmt.Sprintf("%d/%s", ai, k)
				if done[key] {
					continue
				}
				done[key] = true
				changed = true
				env := e.newEnv()
				env.pkg = ax.Pkg
				env.st, env.old = states[k], states[k]
				before := len(e.asserts)
				t, err := env.boolTerm(ax.Expr)
				if err != nil {
					e.contractError(ax.Clause, err)
					continue
				}
				// facts produced while translating the axiom go with it
				axioms = append(axioms, e.asserts[before:]...)
				e.asserts = e.asserts[:before]
				axioms = append(axioms, t)
				e.assumptions["definitional axiom "+ax.Label] = true
			}
		}
	}
	if len(e.allocSites) > 8 {
		// many allocation sites (table initialisers): tell the solver outright that they differ
		seen := map[string]bool{}
		var ns []string
		for _, n := range e.allocSites {
			if !seen[n] {
				seen[n] = true
				ns = append(ns, n)
			}
		}
		if len(ns) > 8 {
			axioms = append(axioms, "(distinct "+strings.Join(ns, " ")+")")
		}
	}
	if len(axioms) > 0 {
		// axioms hold from the start: they are visible to every obligation (assumptions are flow ordered)
		e.asserts = append(append([]string{}, axioms...), e.asserts...)
		for _, o := range e.obls {
			o.At += len(axioms)
		}
		e.entryAt += len(axioms)
	}
}

// assumeIfaceRequires: a method that implements an interface method under contract is entered, through
// that interface, only with the interface contract's preconditions established (they are checked at every
// invoke site); static callers are checked against the method's own contract.
type ifaceImpl struct {
	key string
	fc  *FuncContract
	tn  *types.TypeName
	sig *types.Signature
}

// ifaceContracts: the interface-method contracts this method has to honour (it implements the interface).
func (e *enc) ifaceContracts() []ifaceImpl { return e.ifaceContractsOf(e.f) }

func (e *enc) ifaceContractsOf(f *ssa.Function) []ifaceImpl {
	if f.Signature.Recv() == nil {
		// contracts of named function types: every function of the package with that signature
		var res []ifaceImpl
		if f.Pkg == nil || f.Parent() != nil {
			return nil
		}
		var keys []string
		for k := range e.w.CS.FuncTypes {
			keys = append(keys, k)
		}
		sort.Strings(keys)
		for _, k := range keys {
			fc := e.w.CS.FuncTypes[k]
			parts := strings.SplitN(k, ".", 2)
			if parts[0] != f.Pkg.Pkg.Name() {
				continue
			}
			tf := strings.SplitN(parts[1], ".", 2)
			tn, ok := f.Pkg.Pkg.Scope().Lookup(tf[0]).(*types.TypeName)
			if !ok {
				continue
			}
			var sig *types.Signature
			if len(tf) == 2 {
				// the type of a struct field
				if st, ok := tn.Type().Underlying().(*types.Struct); ok {
					for i := 0; i < st.NumFields(); i++ {
						if st.Field(i).Name() == tf[1] {
							sig, _ = st.Field(i).Type().Underlying().(*types.Signature)
						}
					}
				}
			} else {
				sig, _ = tn.Type().Underlying().(*types.Signature)
			}
			if sig == nil || !types.Identical(sig, f.Signature) {
				continue
			}
			res = append(res, ifaceImpl{"functype:" + k, fc, tn, sig})
		}
		return res
	}
	if len(e.w.CS.Ifaces) == 0 {
		return nil
	}
	rt := f.Signature.Recv().Type()
	var res []ifaceImpl
	var keys []string
	for key := range e.w.CS.Ifaces {
		keys = append(keys, key)
	}
	sort.Strings(keys)
	for _, key := range keys {
		fc := e.w.CS.Ifaces[key]
		parts := strings.Split(key, ".")
		if len(parts) != 3 || parts[2] != f.Name() {
			continue
		}
		p := e.w.TPkgs[parts[0]]
		if p == nil {
			continue
		}
		tn, ok := p.Scope().Lookup(parts[1]).(*types.TypeName)
		if !ok {
			continue
		}
		iface, ok := tn.Type().Underlying().(*types.Interface)
		if !ok || !types.Implements(rt, iface) {
			continue
		}
		for i := 0; i < iface.NumMethods(); i++ {
			if iface.Method(i).Name() == f.Name() {
				res = append(res, ifaceImpl{key, fc, tn, iface.Method(i).Type().(*types.Signature)})
			}
		}
	}
	return res
}

func (e *enc) ifaceEnv(ii ifaceImpl, env *cenv) {
	f := e.f
	env.pkg = ii.fc.Pkg
	if strings.HasPrefix(ii.key, "functype:") {
		for i, p := range f.Params {
			env.vars[fmt.Sprintf("arg%d", i)] = cval{e.val(p), e.sortOf(p.Type()), p.Type()}
		}
		return
	}
	env.vars["this"] = cval{e.mkIface(e.val(f.Params[0]), f.Params[0].Type()), "Iface", ii.tn.Type()}
	for i := 0; i < ii.sig.Params().Len() && i+1 < len(f.Params); i++ {
		cv := cval{e.val(f.Params[i+1]), e.sortOf(f.Params[i+1].Type()), f.Params[i+1].Type()}
		if n := ii.sig.Params().At(i).Name(); n != "" && n != "_" {
			env.vars[n] = cv
		}
		env.vars[fmt.Sprintf("arg%d", i)] = cv
	}
}

// assumeIfaceRequires: a method reached through an interface may rely on the interface contract's
// preconditions (every invoke site proves them).
func (e *enc) assumeIfaceRequires() {
	if dbgOn {
		fmt.Printf("DBG ifaceContracts of %s: %d\n", e.key, len(e.ifaceContracts()))
	}
	for _, ii := range e.ifaceContracts() {
		if len(ii.fc.Requires) == 0 {
			continue
		}
		env := e.newEnv()
		env.st, env.old = e.entry, e.entry
		e.ifaceEnv(ii, env)
		for _, c := range ii.fc.Requires {
			t, err := env.boolTerm(c.Expr)
			if err != nil {
				e.contractError(c, err)
				continue
			}
			e.assume(t)
		}
		ii.fc.Used = true
	}
}

// ifaceEnsuresObls: what callers through the interface are told, every implementer proves.
func (e *enc) ifaceEnsuresObls(r *ssa.Return, R string, rets []string, rts []types.Type) {
	for _, ii := range e.ifaceContracts() {
		if len(ii.fc.Ensures) == 0 || ii.fc.Trusted {
			continue
		}
		env := e.resultEnv(rets, rts)
		// only the names of the interface signature are in scope
		e.ifaceEnv(ii, env)
		for k := range rets {
			if k < ii.sig.Results().Len() {
				if nm := ii.sig.Results().At(k).Name(); nm != "" && nm != "_" {
					env.vars[nm] = env.vars[fmt.Sprintf("result.%d", k)]
				}
			}
		}
		for _, c := range ii.fc.Ensures {
			t, err := env.boolTerm(c.Expr)
			if err != nil {
				e.contractError(c, err)
				continue
			}
			pos := r.Pos()
			if !pos.IsValid() {
				pos = e.nearPos(r)
			}
			e.add("post", "iface:"+ii.key+":"+c.Label, pos, R, t)
		}
		ii.fc.Used = true
	}
}

func (e *enc) callKeyOf(cc *ssa.CallCommon) string {
	if cc.IsInvoke() {
		return e.ifaceKey(cc)
	}
	if callee := cc.StaticCallee(); callee != nil {
		return funcKey(callee)
	}
	if _, isBuiltin := cc.Value.(*ssa.Builtin); isBuiltin {
		return ""
	}
	return "dynamic"
}

var dbgOn = len(dbgEnv) > 0

// loopStoresOnlyToOwnAllocs: every instruction of the loop writing field array a is a store to a
// field of an object allocated by this activation (an Alloc of this function). Returns the terms of
// those allocations that were made before the loop.
func (e *enc) loopStoresOnlyToOwnAllocs(h *ssa.BasicBlock, a string) ([]string, bool) {
	var own []string
	for b := range e.loopBody[h] {
		for _, ins := range b.Instrs {
			writes := false
			for _, w := range e.info.writes[ins] {
				if w == a {
					writes = true
				}
			}
			if !writes {
				continue
			}
			if _, isCall := ins.(ssa.CallInstruction); isCall && e.w.frozenArr(a) {
				continue // a call changes a frozen field only on objects born during the call
			}
			st, ok := ins.(*ssa.Store)
			if !ok {
				return nil, false
			}
			fa, ok := st.Addr.(*ssa.FieldAddr)
			if !ok {
				return nil, false
			}
			al, ok := fa.X.(*ssa.Alloc)
			if !ok {
				return nil, false
			}
			if !e.loopBody[h][al.Block()] {
				if n, ok := e.names[al]; ok {
					own = append(own, n)
				} else {
					return nil, false
				}
			}
		}
	}
	return own, true
}

// isPkgInit: the synthetic package initialiser or a declared init function.
func isPkgInit(f *ssa.Function) bool {
	if f.Signature.Recv() != nil || f.Parent() != nil {
		return false
	}
	n := f.Name()
	if n == "init" {
		return true
	}
	if strings.HasPrefix(n, "init#") {
		_, err := strconv.Atoi(n[5:])
		return err == nil
	}
	return false
}

// reachedFromInit: functions of the repository a package initialiser may run (static calls,
// function values and closures mentioned; transitive). They may see variables before the
// initialiser has finished, so global invariants are not assumed in them.
func (w *World) reachedFromInit() map[*ssa.Function]bool {
	if w.initReach != nil {
		return w.initReach
	}
	w.initReach = map[*ssa.Function]bool{}
	var work []*ssa.Function
	for _, f := range w.FuncList {
		if isPkgInit(f) {
			w.initReach[f] = true
			work = append(work, f)
		}
	}
	for len(work) > 0 {
		f := work[len(work)-1]
		work = work[:len(work)-1]
		for _, b := range f.Blocks {
			for _, ins := range b.Instrs {
				var ops []*ssa.Value
				for _, op := range ins.Operands(ops) {
					if op == nil || *op == nil {
						continue
					}
					var g *ssa.Function
					switch x := (*op).(type) {
					case *ssa.Function:
						g = x
					case *ssa.MakeClosure:
						g, _ = x.Fn.(*ssa.Function)
					}
					if g != nil && !w.initReach[g] && !isPkgInit(g) && len(g.Blocks) > 0 {
						w.initReach[g] = true
						work = append(work, g)
					}
				}
				// interface method calls: every implementation may run
				if c, ok := ins.(ssa.CallInstruction); ok && c.Common().IsInvoke() {
					w.immutableArr("") // computes w.Mod
					for _, g := range w.Mod.implMethods(c.Common().Value.Type(), c.Common().Method) {
						if !w.initReach[g] {
							w.initReach[g] = true
							work = append(work, g)
						}
					}
				}
			}
		}
	}
	return w.initReach
}

// assumeGlobalInvariants: see GlobalInv. In the package initialiser the guard variable is false on entry.
func (e *enc) assumeGlobalInvariants() {
	f := e.f
	if f.Pkg == nil {
		return
	}
	if f.Name() == "init" && f.Synthetic != "" {
		if g := f.Pkg.Var("init$guard"); g != nil {
			e.val(g)
			if l, ok := e.locs[g]; ok {
				e.assume("(not " + e.loadIn(l, e.entry) + ")")
			}
		}
		return
	}
	for _, gi := range e.w.CS.GlobalInvs {
		// the package the invariant is about (functions of any package that read its variables rely on it)
		pkg := gi.Pkg
		var gpkg *ssa.Package
		for _, p := range e.w.Prog.AllPackages() {
			if e.w.InRepo[p] && p.Pkg.Name() == pkg {
				gpkg = p
			}
		}
		if gpkg == nil {
			continue
		}
		ids := map[string]bool{}
		cexprIdents(gi.Expr, ids)
		uses := false
		okAll := true
		for n := range ids {
			g := gpkg.Var(n)
			if g == nil {
				continue
			}
			usesG := false
			for _, b := range f.Blocks {
				for _, ins := range b.Instrs {
					var ops []*ssa.Value
					for _, op := range ins.Operands(ops) {
						if op != nil && *op == ssa.Value(g) {
							usesG = true
						}
					}
				}
			}
			uses = uses || usesG
			if !e.w.immutableArr(arrGlobal(g)) {
				okAll = false
				if usesG {
					e.contractError(gi.Clause, fmt.Errorf("variable %s is written outside the package initialisers (or its address escapes): no global invariant over it", n))
				}
			}
		}
		if !uses || !okAll || e.w.reachedFromInit()[f] {
			continue
		}
		env := e.newEnv()
		env.pkg = pkg
		env.st = e.entry
		env.old = e.entry
		t, err := env.boolTerm(gi.Expr)
		if err != nil {
			e.contractError(gi.Clause, err)
			continue
		}
		e.assume(t)
		e.usedGlobalInvs = append(e.usedGlobalInvs, gi)
		e.assumptions[fmt.Sprintf("global invariant %s of package %s assumed on entry of %s (proved as a postcondition of %s.init under %s; its variables are written by package initialisers only)", gi.Label, pkg, e.key, pkg, strings.Join(gi.Props, ","))] = true
	}
}
