package main

// ENGINE is not a property of the repository: it names the engine self-test (selftest/engine.sh),
// a small module of deliberately right and wrong contracts with the list of obligations that must fail.
func init() {
	registerProp(&PropSpec{ID: "ENGINE", Title: "engine self-test (must-fail corpus)", MinObls: 10})
}
