package main

// C12 extras: the mutex table and the owner table are written by the mutex block runtime only.

import (
	"fmt"
	"go/types"
	"regexp"
	"sort"
	"strings"

	"golang.org/x/tools/go/ssa"
)

// fieldOfMapOperand: if v is (a load of) a struct field, returns "pkg.Type.field".
func fieldOfMapOperand(v ssa.Value) string {
	u, ok := v.(*ssa.UnOp)
	if !ok {
		return ""
	}
	fa, ok := u.X.(*ssa.FieldAddr)
	if !ok {
		return ""
	}
	pt := fa.X.Type().Underlying().(*types.Pointer).Elem()
	st := pt.Underlying().(*types.Struct)
	return types.TypeString(pt, qualName) + "." + st.Field(fa.Field).Name()
}

func c12Extra(c *Checker) {
	w := c.W
	allowed := map[string]bool{"interpreter.(*mutexRuntime).Eval": true, "interpreter.(*mutexRuntime).Eval$1": true}
	tables := map[string]bool{"interpreter.ECALRuntimeProvider.Mutexes": true, "interpreter.ECALRuntimeProvider.MutexeOwners": true}
	writers := map[string][]string{}
	var bad []struct {
		f   *ssa.Function
		ins ssa.Instruction
		tab string
	}
	for _, f := range w.FuncList {
		for _, b := range f.Blocks {
			for _, ins := range b.Instrs {
				var m ssa.Value
				switch x := ins.(type) {
				case *ssa.MapUpdate:
					m = x.Map
				case ssa.CallInstruction:
					if bi, ok := x.Common().Value.(*ssa.Builtin); ok && bi.Name() == "delete" {
						m = x.Common().Args[0]
					}
				case *ssa.Store:
					// replacing the whole table
					if fa, ok := x.Addr.(*ssa.FieldAddr); ok {
						pt := fa.X.Type().Underlying().(*types.Pointer).Elem()
						st := pt.Underlying().(*types.Struct)
						name := types.TypeString(pt, qualName) + "." + st.Field(fa.Field).Name()
						if tables[name] && !isLocalAlloc(fa.X) {
							bad = append(bad, struct {
								f   *ssa.Function
								ins ssa.Instruction
								tab string
							}{f, ins, name})
						}
					}
				}
				if m == nil {
					continue
				}
				tab := fieldOfMapOperand(m)
				if !tables[tab] {
					continue
				}
				k := funcKey(f)
				writers[tab] = append(writers[tab], k+" "+shortPos(w.Fset, ins.Pos()))
				if !allowed[k] {
					bad = append(bad, struct {
						f   *ssa.Function
						ins ssa.Instruction
						tab string
					}{f, ins, tab})
				}
			}
		}
	}
	f := w.Funcs["interpreter.(*mutexRuntime).Eval"]
	if f == nil {
		c.engineErr = append(c.engineErr, "interpreter.(*mutexRuntime).Eval not found")
		return
	}
	e := c.structEnc(f)
	var tabs []string
	for t := range tables {
		tabs = append(tabs, t)
	}
	sort.Strings(tabs)
	for _, t := range tabs {
		short := t[strings.LastIndex(t, ".")+1:]
		c.addStruct(e, "frame", "mutex-table-writers:"+short, f.Pos(), len(writers[t]) > 0, fmt.Sprintf("every map update / delete on %s in the program: %v (must be inside the mutex block runtime)", t, writers[t]))
	}
	for _, b := range bad {
		be := c.structEnc(b.f)
		c.addStruct(be, "frame", "mutex-table-foreign-write", b.ins.Pos(), false, fmt.Sprintf("%s writes %s outside the mutex block runtime: ownership bookkeeping can no longer be trusted", funcKey(b.f), b.tab))
	}
}

func init() {
	registerProp(&PropSpec{ID: "C12", Title: "Mutex blocks of one name are mutually exclusive, re-entrant and always released", MinObls: 30, Extra: c12Extra, Classes: regexp.MustCompile(`^(lock|assert|pre|post|frame|inv|own|cond)`),
		TrustedBase: []string{"native model of sync.Mutex (ghost lock set per thread)", "defer model: deferred calls run, in reverse order and under the guard of their defer statement, at every return"},
		Assumptions: []string{"threads evaluating mutex blocks use pairwise distinct, non-zero thread ids (pool workers: NewThreadID is proved >= 1 and strictly increasing under its lock)",
			"sync.Mutex provides mutual exclusion between threads: what is proved per thread is that the block is entered only while this thread holds the named mutex (or already owns it according to the owner table) and that every exit of Eval leaves the lock set as it found it",
			"a panic inside the block is excluded (C06); panic exits are not modelled"},
		NotDecided: []string{"the cross-thread owner-table invariant (owner[n] == t != 0 implies thread t holds Mutexes[n]) is argued from the checked obligations: only the mutex runtime writes the tables, ownership is registered only while holding the mutex and cleared before it is released"}})
}
