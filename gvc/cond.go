package main

// Condition-variable discipline (DESIGN §7.4), structural part. For a sync.Cond field declared with
//
//   //@ cond T.f
//   //@   readers  q.Size, q.Pop, field k     what counts as testing the predicate
//   //@   writers  q.Push, field k            what may make the predicate true
//   //@   consumers (*T).m, ...               functions whose writes only consume (need no signal)
//
// the obligations are
//   cond:wait-tested-under-L   every Wait is reached, inside the critical section of L that contains it,
//                              through a branch whose condition depends on a reader;
//   cond:signal-after-write    after every writer site every path to a return passes a Signal/Broadcast
//                              of the condition.
// wait-holds-L and signal-under-L are SMT obligations over the ghost lock set (disc.go).

import (
	"fmt"
	"go/constant"
	"go/types"
	"strings"

	"golang.org/x/tools/go/ssa"
)

type CondDecl struct {
	signalFns        map[*ssa.Function]bool // helpers that signal the condition on every path
	Pkg, Type, Field string
	Readers          []string
	ReaderGroups     [][]string // every group must be tested before a Wait
	Writers          []string
	Consumers        []string
	File             string
	Line             int
}

func fieldRef(v ssa.Value) (string, string, bool) { // type name, field name
	u, ok := v.(*ssa.UnOp)
	if ok {
		v = u.X
	}
	fa, ok := v.(*ssa.FieldAddr)
	if !ok {
		return "", "", false
	}
	pt := fa.X.Type().Underlying().(*types.Pointer).Elem()
	st := pt.Underlying().(*types.Struct)
	return types.TypeString(pt, qualName), st.Field(fa.Field).Name(), true
}

// isCondOp: ins is a call of Wait / Signal / Broadcast on the declared condition.
func (cd *CondDecl) isCondOp(ins ssa.Instruction) (string, bool) {
	c, ok := ins.(ssa.CallInstruction)
	if !ok {
		return "", false
	}
	callee := c.Common().StaticCallee()
	if callee == nil || len(c.Common().Args) == 0 {
		return "", false
	}
	k := funcKey(callee)
	if !strings.HasPrefix(k, "(*sync.Cond).") {
		return "", false
	}
	tn, fn, ok := fieldRef(c.Common().Args[0])
	if !ok || tn != cd.Pkg+"."+cd.Type || fn != cd.Field {
		return "", false
	}
	return callee.Name(), true
}

// lockOfCond: ins is Lock/Unlock on <cond>.L
func (cd *CondDecl) isLOp(ins ssa.Instruction) (string, bool) {
	if _, isDefer := ins.(*ssa.Defer); isDefer {
		return "", false // runs at function exit, not here
	}
	c, ok := ins.(ssa.CallInstruction)
	if !ok {
		return "", false
	}
	cc := c.Common()
	if !cc.IsInvoke() || (cc.Method.Name() != "Lock" && cc.Method.Name() != "Unlock") {
		return "", false
	}
	// receiver: load of FieldAddr(cond, L) where cond is load of the cond field
	u, ok := cc.Value.(*ssa.UnOp)
	if !ok {
		return "", false
	}
	fa, ok := u.X.(*ssa.FieldAddr)
	if !ok {
		return "", false
	}
	tn, fn, ok := fieldRef(fa.X)
	if !ok || tn != cd.Pkg+"."+cd.Type || fn != cd.Field {
		return "", false
	}
	return cc.Method.Name(), true
}

func (cd *CondDecl) matches(list []string, ins ssa.Instruction, write bool) (string, bool) {
	for _, item := range list {
		item = strings.TrimSpace(item)
		if strings.HasPrefix(item, "field ") {
			f := strings.TrimSpace(strings.TrimPrefix(item, "field "))
			if write {
				if st, ok := ins.(*ssa.Store); ok {
					if tn, fn, ok := fieldRef(st.Addr); ok && tn == cd.Pkg+"."+cd.Type && fn == f {
						if c, isC := st.Val.(*ssa.Const); isC && isZeroConst(c) {
							continue // resetting to the zero value cannot make a waiter's predicate true
						}
						if fa, ok := st.Addr.(*ssa.FieldAddr); ok && isLocalAlloc(fa.X) {
							continue // object under construction
						}
						return item, true
					}
				}
			} else if u, ok := ins.(*ssa.UnOp); ok {
				if _, isFA := u.X.(*ssa.FieldAddr); isFA {
					if tn, fn, ok := fieldRef(u); ok && tn == cd.Pkg+"."+cd.Type && fn == f {
						return item, true
					}
				}
			}
			continue
		}
		// "q.Method": call of Method on the value stored in field q
		parts := strings.SplitN(item, ".", 2)
		if len(parts) != 2 {
			continue
		}
		c, ok := ins.(ssa.CallInstruction)
		if !ok {
			continue
		}
		cc := c.Common()
		var recv ssa.Value
		name := ""
		if cc.IsInvoke() {
			recv, name = cc.Value, cc.Method.Name()
		} else if callee := cc.StaticCallee(); callee != nil && callee.Signature.Recv() != nil && len(cc.Args) > 0 {
			recv, name = cc.Args[0], callee.Name()
		}
		if name != parts[1] || recv == nil {
			continue
		}
		if tn, fn, ok := fieldRef(recv); ok && tn == cd.Pkg+"."+cd.Type && fn == parts[0] {
			return item, true
		}
	}
	return "", false
}

// dependsOn: the backward slice of v (through operands, phis, and the callees' results) contains target.
func dependsOn(v ssa.Value, targets map[ssa.Value]bool, seen map[ssa.Value]bool) bool {
	if v == nil || seen[v] {
		return false
	}
	seen[v] = true
	if targets[v] {
		return true
	}
	ins, ok := v.(ssa.Instruction)
	if !ok {
		return false
	}
	var ops []*ssa.Value
	ops = ins.Operands(ops)
	for _, op := range ops {
		if op != nil && *op != nil && dependsOn(*op, targets, seen) {
			return true
		}
	}
	return false
}

func condExtra(c *Checker, pkgFilter string) {
	w := c.W
	for _, cd := range w.CS.Conds {
		if pkgFilter != "" && cd.Pkg != pkgFilter {
			continue
		}
		cd.findSignalFns(w)
		consumer := map[string]bool{}
		for _, k := range cd.Consumers {
			consumer[qualify(cd.Pkg, strings.TrimSpace(k))] = true
		}
		nWait, nSignal, nWrite := 0, 0, 0
		var holder *enc
		for _, f := range w.FuncList {
			if f.Pkg == nil || f.Pkg.Pkg.Name() != cd.Pkg {
				continue
			}
			var e *enc
			get := func() *enc {
				if e == nil {
					e = c.structEnc(f)
				}
				return e
			}
			for _, b := range f.Blocks {
				for idx, ins := range b.Instrs {
					if op, ok := cd.isCondOp(ins); ok {
						switch op {
						case "Wait":
							nWait++
							ok, why := cd.waitTested(f, b, idx)
							c.addStruct(get(), "cond", "wait-tested-under-L", ins.Pos(), ok, why)
						default:
							nSignal++
						}
					} else if cd.isSignal(ins) {
						nSignal++
					}
					if item, ok := cd.matches(cd.Writers, ins, true); ok && !consumer[funcKey(f)] {
						nWrite++
						ok, why := cd.signalAfter(f, b, idx)
						c.addStruct(get(), "cond", "signal-after-write:"+strings.ReplaceAll(item, " ", "-"), ins.Pos(), ok, why)
					}
				}
			}
			if e != nil && holder == nil {
				holder = e
			}
		}
		if holder != nil {
			c.addStruct(holder, "cond", "scan:"+cd.Type+"."+cd.Field, holder.f.Pos(), nWait > 0 && nSignal > 0,
				fmt.Sprintf("condition %s.%s.%s: %d Wait sites, %d Signal/Broadcast sites, %d writer sites outside the declared consumers", cd.Pkg, cd.Type, cd.Field, nWait, nSignal, nWrite))
		} else {
			c.engineErr = append(c.engineErr, fmt.Sprintf("cond %s.%s.%s: no use found in the code", cd.Pkg, cd.Type, cd.Field))
		}
	}
}

// waitTested: walking back from the Wait along dominators to the Lock of L that opens its critical
// section (no Unlock of L in between), some branch condition on the way depends on a reader that
// itself lies inside that critical section.
func (cd *CondDecl) waitTested(f *ssa.Function, wb *ssa.BasicBlock, widx int) (bool, string) {
	inSection := map[ssa.Value]bool{}
	groupVals := make([]map[ssa.Value]bool, len(cd.ReaderGroups))
	for i := range groupVals {
		groupVals[i] = map[ssa.Value]bool{}
	}
	var conds []ssa.Value
	foundLock := false
	for blk := wb; blk != nil && !foundLock; blk = blk.Idom() {
		end := len(blk.Instrs)
		if blk == wb {
			end = widx
		}
		for i := end - 1; i >= 0; i-- {
			ins := blk.Instrs[i]
			if op, ok := cd.isLOp(ins); ok {
				if op == "Unlock" {
					return false, "the critical section of L is left between the last Lock and the Wait"
				}
				foundLock = true
				break
			}
			if _, ok := cd.matches(cd.Readers, ins, false); ok {
				if v, isV := ins.(ssa.Value); isV {
					inSection[v] = true
					for gi, g := range cd.ReaderGroups {
						if _, ok := cd.matches(g, ins, false); ok {
							groupVals[gi][v] = true
						}
					}
				}
			}
		}
		if blk != wb || true {
			// the branch that leads from the immediate dominator into this block
			if id := blk.Idom(); id != nil && !foundLock {
				if iff, ok := id.Instrs[len(id.Instrs)-1].(*ssa.If); ok {
					conds = append(conds, iff.Cond)
				}
			}
		}
	}
	if !foundLock {
		return false, "no Lock of the condition's L dominates the Wait inside this function"
	}
	if len(inSection) == 0 {
		return false, "the predicate (declared readers: " + strings.Join(cd.Readers, ", ") + ") is not read between L.Lock() and Wait(): a signal sent after the last test, before the wait, is lost"
	}
	for gi, g := range cd.ReaderGroups {
		ok := false
		for _, cnd := range conds {
			if dependsOn(cnd, groupVals[gi], map[ssa.Value]bool{}) {
				ok = true
			}
		}
		if !ok {
			return false, "the Wait does not depend on a test, made under L, of this part of the predicate: " + strings.Join(g, " | ")
		}
	}
	for _, cnd := range conds {
		if dependsOn(cnd, inSection, map[ssa.Value]bool{}) {
			return true, "the Wait is guarded by a test of every part of the predicate made under L"
		}
	}
	return false, "the predicate is read under L but the Wait does not depend on the outcome"
}

// isSignal: a Signal/Broadcast of the condition, or a call of a helper that signals on every path.
func (cd *CondDecl) isSignal(ins ssa.Instruction) bool {
	if op, ok := cd.isCondOp(ins); ok && (op == "Signal" || op == "Broadcast") {
		return true
	}
	if c, ok := ins.(*ssa.Call); ok {
		if callee := c.Call.StaticCallee(); callee != nil && cd.signalFns[callee] {
			return true
		}
	}
	return false
}

// findSignalFns: functions of the package in which every path from entry to a return signals.
func (cd *CondDecl) findSignalFns(w *World) {
	cd.signalFns = map[*ssa.Function]bool{}
	for changed := true; changed; {
		changed = false
		for _, f := range w.FuncList {
			if f.Pkg == nil || f.Pkg.Pkg.Name() != cd.Pkg || cd.signalFns[f] || len(f.Blocks) == 0 {
				continue
			}
			seen := map[*ssa.BasicBlock]bool{}
			var all func(b *ssa.BasicBlock) bool
			all = func(b *ssa.BasicBlock) bool {
				if seen[b] {
					return true
				}
				seen[b] = true
				for _, ins := range b.Instrs {
					if cd.isSignal(ins) {
						return true
					}
				}
				if len(b.Succs) == 0 {
					_, isRet := b.Instrs[len(b.Instrs)-1].(*ssa.Return)
					return !isRet
				}
				for _, s := range b.Succs {
					if !all(s) {
						return false
					}
				}
				return true
			}
			if all(f.Blocks[0]) {
				cd.signalFns[f] = true
				changed = true
			}
		}
	}
}

// signalAfter: every path from the writer site to a return passes a Signal/Broadcast of the condition.
func (cd *CondDecl) signalAfter(f *ssa.Function, wb *ssa.BasicBlock, widx int) (bool, string) {
	hasSignalFrom := func(b *ssa.BasicBlock, from int) bool {
		for i := from; i < len(b.Instrs); i++ {
			if cd.isSignal(b.Instrs[i]) {
				return true
			}
		}
		return false
	}
	if hasSignalFrom(wb, widx+1) {
		return true, "followed by a signal in the same block"
	}
	seen := map[*ssa.BasicBlock]bool{}
	var bad *ssa.BasicBlock
	var dfs func(b *ssa.BasicBlock) bool
	dfs = func(b *ssa.BasicBlock) bool { // true = all paths from the start of b signal before returning
		if seen[b] {
			return true
		}
		seen[b] = true
		if hasSignalFrom(b, 0) {
			return true
		}
		if len(b.Succs) == 0 {
			if _, isRet := b.Instrs[len(b.Instrs)-1].(*ssa.Return); isRet {
				bad = b
				return false
			}
			return true // panic exit
		}
		for _, s := range b.Succs {
			if !dfs(s) {
				return false
			}
		}
		return true
	}
	for _, s := range wb.Succs {
		if !dfs(s) {
			return false, fmt.Sprintf("a path from this write reaches the return in block %d without Signal/Broadcast: a waiter is not woken", bad.Index)
		}
	}
	if len(wb.Succs) == 0 {
		return false, "the function returns right after the write without signalling"
	}
	return true, "every path to a return signals the condition"
}

func isZeroConst(c *ssa.Const) bool {
	if c.Value == nil {
		return true
	}
	switch c.Value.Kind() {
	case constant.Bool:
		return !constant.BoolVal(c.Value)
	case constant.Int:
		v, ok := constant.Int64Val(c.Value)
		return ok && v == 0
	}
	return false
}
