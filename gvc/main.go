package main

import (
	"flag"
	"fmt"
	"os"
	"regexp"
	"sort"
	"strings"
	"sync"
	"time"

	"golang.org/x/tools/go/ssa"
)

// encodeFunc runs the three encoding passes (array discovery, write sets, final).
func encodeFunc(w *World, f *ssa.Function, opts *EncOpts) *enc {
	if dbgOn {
		f.WriteTo(os.Stdout)
	}
	e0 := newEnc(w, f, nil, opts)
	e0.run()
	e1 := newEnc(w, f, &passInfo{arrays: e0.rec.arrays}, opts)
	e1.run()
	arrays := e1.rec.arrays
	for a, s := range e0.rec.arrays {
		if _, ok := arrays[a]; !ok {
			arrays[a] = s
		}
	}
	e2 := newEnc(w, f, &passInfo{arrays: arrays, writes: e1.rec.writes}, opts)
	e2.ok = e2.run()
	e2.finish()
	return e2
}

func main() {
	if len(os.Args) < 2 {
		fatalf("usage: gvc <sweep|verify|check|list> ...")
	}
	cmd := os.Args[1]
	fs := flag.NewFlagSet(cmd, flag.ExitOnError)
	repo := fs.String("repo", "/repo", "repository root")
	spec := fs.String("spec", "/verif/spec", "directory of trusted library contracts")
	fnRe := fs.String("fn", "", "regexp selecting functions by key")
	timeout := fs.Int("t", 0, "per-obligation solver timeout (ms); default 2000 for sweep/verify, 10000 for check")
	verbose := fs.Bool("v", false, "verbose")
	nonnil := fs.Bool("nonnil", false, "assume pointer parameters non-nil")
	classRe := fs.String("class", "", "regexp selecting obligation classes")
	fs.BoolVar(&keepSMT, "keep", false, "keep SMT files")
	fs.BoolVar(&debugPanics, "panics", false, "do not recover encoder panics")
	scratch := fs.String("scratch", "", "scratch directory")
	fs.Parse(os.Args[2:])
	if *timeout == 0 {
		*timeout = 2000
		if cmd == "check" {
			*timeout = 10000
		}
	}
	switch cmd {
	case "check":
		os.Exit(cmdCheck(fs.Args(), *repo, *spec, *timeout, *verbose))
	}
	t0 := time.Now()
	w, err := LoadWorld(*repo, *spec)
	if err != nil {
		fatalf("load: %v", err)
	}
	for _, e := range w.CS.Errors {
		fmt.Fprintln(os.Stderr, "contract error:", e)
	}
	fmt.Fprintf(os.Stderr, "loaded %d functions, %d contracts in %s\n", len(w.FuncList), len(w.CS.Funcs), time.Since(t0))
	var re *regexp.Regexp
	if *fnRe != "" {
		re = regexp.MustCompile(*fnRe)
	}
	var cre *regexp.Regexp
	if *classRe != "" {
		cre = regexp.MustCompile(*classRe)
	}
	dir := *scratch
	if dir == "" {
		dir, _ = os.MkdirTemp("", "gvc.")
		if !keepSMT {
			defer os.RemoveAll(dir)
		}
	}
	os.MkdirAll(dir, 0755)
	opts := &EncOpts{NonnilParams: *nonnil}
	switch cmd {
	case "rooted":
		w.immutableArr("")
		for _, f := range w.FuncList {
			if re != nil && re.MatchString(funcKey(f)) {
				for _, rw := range w.Mod.rootedWrites(f) {
					name := rw.Root
					if strings.HasPrefix(rw.Root, "fv:") {
						var i int
						fmt.Sscanf(rw.Root, "fv:%d", &i)
						name = "free variable " + f.FreeVars[i].Name()
					} else if strings.HasPrefix(rw.Root, "p:") {
						var i int
						fmt.Sscanf(rw.Root, "p:%d", &i)
						name = "parameter " + f.Params[i].Name()
					}
					fmt.Printf("%-50s %-28s %s %s\n", funcKey(f), name, shortPos(w.Fset, rw.Instr.Pos()), rw.How)
				}
			}
		}
	case "globals":
		w.immutableArr("")
		gw := w.Mod.computeGlobalWrites()
		for _, f := range w.FuncList {
			for _, g := range gw[f] {
				fmt.Printf("%-60s %-32s %-12s %s\n", funcKey(f), g.Global, g.How, shortPos(w.Fset, g.Instr.Pos()))
			}
		}
	case "writers":
		w.immutableArr("")
		for a, fs := range w.Mod.Writers {
			if re == nil || re.MatchString(a) {
				for f := range fs {
					fmt.Println(a, "<-", f)
				}
			}
		}
	case "immutable":
		w.immutableArr("")
		for _, f := range w.Mod.immutableFields() {
			fmt.Println("immutable", f)
		}
		var ms []string
		for a, why := range w.Mod.Mutable {
			ms = append(ms, a+"  <- "+why)
		}
		sort.Strings(ms)
		for _, m := range ms {
			fmt.Println("mutable  ", m)
		}
	case "list":
		for _, f := range w.FuncList {
			if re == nil || re.MatchString(funcKey(f)) {
				fmt.Println(funcKey(f))
			}
		}
	case "sweep", "verify":
		var fns []*ssa.Function
		for _, f := range w.FuncList {
			if re == nil || re.MatchString(funcKey(f)) {
				fns = append(fns, f)
			}
		}
		encs := make([]*enc, len(fns))
		for i, f := range fns {
			encs[i] = encodeFunc(w, f, opts)
		}
		fmt.Fprintf(os.Stderr, "encoded %d functions in %s\n", len(fns), time.Since(t0))
		var wg sync.WaitGroup
		sem := make(chan bool, 16)
		for i, e := range encs {
			var obls []*Obl
			for _, o := range e.obls {
				if cre == nil || cre.MatchString(o.Class+":"+o.Label) {
					obls = append(obls, o)
				}
			}
			e.obls = obls
			wg.Add(1)
			sem <- true
			go func(i int, e *enc) {
				defer wg.Done()
				discharge(e, dir, i, *timeout, e.obls)
				<-sem
			}(i, e)
		}
		wg.Wait()
		tot := map[string][4]int{}
		notes := map[string]int{}
		var nob, nun int
		for _, e := range encs {
			for k, v := range e.notes {
				notes[k] += v
			}
			for _, o := range e.obls {
				c := tot[o.Class+":"+strings.SplitN(o.Label, ":", 2)[0]]
				nob++
				switch o.Result {
				case "unsat":
					c[0]++
					nun++
				case "sat":
					c[1]++
				case "unknown", "timeout":
					c[2]++
				default:
					c[3]++
				}
				tot[o.Class+":"+strings.SplitN(o.Label, ":", 2)[0]] = c
				if o.Result != "unsat" || *verbose {
					fmt.Printf("%-8s %-70s %s %s %dms %s\n", o.Result, o.ID, shortPos(w.Fset, o.Pos), o.Solver, o.Ms, o.Note)
					if o.Raw != "" {
						fmt.Printf("         raw: %s\n", o.Raw)
					}
					if *verbose && o.Model != "" && cmd == "verify" {
						fmt.Printf("         model: %s\n", truncate(o.Model, 1500))
					}
				}
			}
		}
		var cls []string
		for c := range tot {
			cls = append(cls, c)
		}
		sort.Strings(cls)
		fmt.Printf("functions %d obligations %d discharged %d wall %s\n", len(fns), nob, nun, time.Since(t0))
		for _, c := range cls {
			v := tot[c]
			fmt.Printf("  %-28s unsat %5d sat %5d unknown %4d error %4d\n", c, v[0], v[1], v[2], v[3])
		}
		var nk []string
		for k := range notes {
			nk = append(nk, k)
		}
		sort.Slice(nk, func(i, j int) bool { return notes[nk[i]] > notes[nk[j]] })
		for _, k := range nk {
			fmt.Printf("  note %4d %s\n", notes[k], k)
		}
	default:
		fatalf("unknown command %s", cmd)
	}
}

func truncate(s string, n int) string {
	if len(s) > n {
		return s[:n] + "…"
	}
	return s
}

var dbgEnv = os.Getenv("GVC_DBG")
