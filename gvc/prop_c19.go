package main

// C19: totality of the Go function bridge by "recover dominates": structural obligations on
// (*ECALFunctionAdapter).Run, plus the conversion contracts in stdlib/contracts_verif.go.

import (
	"fmt"
	"regexp"

	"golang.org/x/tools/go/ssa"
)

func c19Extra(c *Checker) {
	w := c.W
	f := w.Funcs["stdlib.(*ECALFunctionAdapter).Run"]
	if f == nil || f.Blocks == nil {
		c.engineErr = append(c.engineErr, "stdlib.(*ECALFunctionAdapter).Run not found")
		return
	}
	e := c.structEnc(f)
	// 1. the first thing Run does is to register a deferred function literal
	var def *ssa.Defer
	okPrefix := true
	var firstBad ssa.Instruction
	for _, ins := range f.Blocks[0].Instrs {
		if d, ok := ins.(*ssa.Defer); ok {
			def = d
			break
		}
		switch ins.(type) {
		case *ssa.Alloc, *ssa.Store, *ssa.DebugRef, *ssa.MakeClosure:
		default:
			okPrefix = false
			if firstBad == nil {
				firstBad = ins
			}
		}
	}
	note := "the entry block registers the deferred recover before anything else"
	if def == nil {
		okPrefix = false
		note = "no defer in the entry block of Run"
	} else if firstBad != nil {
		note = fmt.Sprintf("instruction %q at %s precedes the defer and is not covered by the recover", firstBad.String(), shortPos(w.Fset, firstBad.Pos()))
	}
	c.addStruct(e, "recover", "defer-first", f.Pos(), okPrefix, note)
	// 2. the deferred literal calls recover() and, when it returns non-nil, assigns the named result err
	recovers, assignsErr := false, false
	var lit *ssa.Function
	if def != nil {
		if mc, ok := def.Call.Value.(*ssa.MakeClosure); ok {
			lit = mc.Fn.(*ssa.Function)
			errIdx := -1
			for i, bd := range mc.Bindings {
				if a, ok := bd.(*ssa.Alloc); ok && a.Comment == "err" {
					errIdx = i
				}
			}
			var recVal ssa.Value
			for _, b := range lit.Blocks {
				for _, ins := range b.Instrs {
					if call, ok := ins.(*ssa.Call); ok {
						if bi, ok := call.Call.Value.(*ssa.Builtin); ok && bi.Name() == "recover" {
							recovers = true
							recVal = call
						}
					}
				}
			}
			if recVal != nil && errIdx >= 0 {
				for _, b := range lit.Blocks {
					for _, ins := range b.Instrs {
						st, ok := ins.(*ssa.Store)
						if !ok || st.Addr != ssa.Value(lit.FreeVars[errIdx]) {
							continue
						}
						// the store must be control dependent on recover() != nil: its block is dominated by a
						// block whose branch condition depends on the recover value
						for d := b.Idom(); d != nil; d = d.Idom() {
							if iff, ok := d.Instrs[len(d.Instrs)-1].(*ssa.If); ok && dependsOn(iff.Cond, map[ssa.Value]bool{recVal: true}, map[ssa.Value]bool{}) {
								assignsErr = true
							}
						}
					}
				}
			}
		}
	}
	c.addStruct(e, "recover", "calls-recover", f.Pos(), recovers, "the deferred function literal calls recover()")
	c.addStruct(e, "recover", "turns-panic-into-error", f.Pos(), assignsErr, "when recover() returns non-nil the literal assigns the named result err of Run")
	// 3. nothing escapes the recovered region: no goroutine is started, the named result is the one returned
	noGo := true
	for _, b := range f.Blocks {
		for _, ins := range b.Instrs {
			if _, ok := ins.(*ssa.Go); ok {
				noGo = false
			}
		}
	}
	c.addStruct(e, "recover", "no-goroutine", f.Pos(), noGo, "Run starts no goroutine (a panic in another goroutine would not be recovered)")
	returnsNamed := true
	for _, b := range f.Blocks {
		if r, ok := b.Instrs[len(b.Instrs)-1].(*ssa.Return); ok {
			if len(r.Results) != 2 {
				returnsNamed = false
				continue
			}
			u, ok := r.Results[1].(*ssa.UnOp)
			if !ok {
				returnsNamed = false
				continue
			}
			a, ok := u.X.(*ssa.Alloc)
			if !ok || a.Comment != "err" {
				returnsNamed = false
			}
		}
	}
	c.addStruct(e, "recover", "returns-the-named-error", f.Pos(), returnsNamed, "every return of Run delivers the named result err (so the value set by the recover is what the caller sees)")
}

func init() {
	registerProp(&PropSpec{ID: "C19", Title: "The Go function bridge is total and converts numbers faithfully", MinObls: 20, Extra: c19Extra,
		Classes:     regexp.MustCompile(`^(post|pre|assert|inv|recover|frame)`),
		TrustedBase: []string{"IEEE-754 semantics of SMT-LIB FloatingPoint for float64 <-> integer conversions (bit-vector integers)", "Go's defer/recover semantics: a deferred function registered first runs on every panic raised later in the same goroutine"},
		Assumptions: []string{"reflect behaves as documented (Kind, NumIn, In, Call, Int, Uint, Float); results of reflect calls are taken as opaque values",
			"float -> integer conversions outside the target range are implementation defined in Go: values are only specified inside the int64 range, types for every kind"},
		NotDecided: []string{"per-signature behaviour of reflect.Call (inside the recovered region: totality does not depend on it)", "values of the narrow integer conversions (int8..uint32): only the resulting type is specified"}})
}
