package main

import "regexp"

func init() {
	registerProp(&PropSpec{ID: "C02", Title: "Waiting on an event returns after its whole cascade, with exactly its errors", MinObls: 60, Extra: func(c *Checker) { condExtra(c, "pool") },
		Classes:     regexp.MustCompile(`^(lock|cond|assert|pre|post|frame|inv|own)`),
		TrustedBase: []string{"native model of sync.Mutex (ghost lock set)", "structural wait/signal discipline of the pool (gvc/cond.go, shared with C09)", "ghost call counters ncalls() per activation", "atlock(k, e): state right after the k-th lock acquisition"},
		Assumptions: []string{"soundness of lock-invariant reasoning: the counter arithmetic is proved for one critical section at a time (value at unlock vs. value right after the lock was taken)",
			"sync.WaitGroup.Wait returns only after Done", "monitor/event hand-over through the task queue is an ownership transfer: the unlocked fields of a monitor (finished, activated, Err, event) are only accessed by the task that owns it"},
		NotDecided: []string{"liveness: that the call does return whenever the actions terminate and a worker is available: the pool's no-lost-wake-up obligations (every queued task is signalled under the condition's lock, every wait re-tests the queue) are part of this check, convergence under a fair scheduler is not mechanised",
			"the global counting argument unfinished == |Created minus Finished| (each step is proved: +1 per created child before it is handed out, -1 per finish, finish reported once per monitor; the induction over the history is not mechanised)"}})
	registerProp(&PropSpec{ID: "C10", Title: "Priorities order execution; the first failing rule ends a trigger sequence", MinObls: 30,
		Classes:     regexp.MustCompile(`^(lock|cond|assert|pre|post|frame|inv|own)`),
		TrustedBase: []string{"native model of sync.Mutex (ghost lock set)", "ghost call counters ncalls()"},
		Assumptions: []string{"sortutil.PriorityQueue pops the (priority, insertion order) minimum and sortutil.IntHeap keeps the minimum first (dependency krotik/common, assumed)"},
		NotDecided:  []string{"the heap/queue ordering itself (dependency code)", "schedule-dependent dequeue order across workers"}})
}
